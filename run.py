#!/usr/bin/env python3
"""Runner for the solver-based checks of serde_avro_fast (see DESIGN.md).

  run.py <PROPERTY> [--tier quick|thorough] [--jobs N] [--only SUBSTR] [--no-replay]
  run.py --replay <path>
  run.py --list

Every claimed property is decided by Kani/CBMC over harnesses that live in /verif/harness and are
mounted into serde_avro_fast under cfg(kani).  The encoding is regenerated from /repo's working
tree by `cargo kani` on every run.  Exit codes: 0 = held on everything explored (KNOWN-FINDING
lines possible), 1 = violation (a `VIOLATION property=<id> replay=<path>` line is printed, after
the counterexample was replayed natively), 2 = inconclusive / broken check (never a pass).
"""
import argparse
import glob
import json
import os
import re
import resource
import shutil
import subprocess
import sys
import time

HERE = os.path.dirname(os.path.abspath(__file__))
HARNESS_DIR = os.environ.get("VERIF_HARNESS", os.path.join(HERE, "harness"))
REPO = os.environ.get("VERIF_REPO", "/repo")
CRATE = os.path.join(REPO, "serde_avro_fast")
TARGET = os.environ.get("VERIF_TARGET", os.path.join("/verif", ".target"))
WORK = os.path.join(HERE, ".work")
EVIDENCE = os.path.join(HERE, "evidence")
REPLAYS = os.path.join(HERE, "replays")
KNOWN = os.path.join(HERE, "known_findings.json")

# harness file -> module path it is mounted at inside serde_avro_fast (see MANIFEST.hooks)
MOUNTS = {
    "root.rs": "verif",
    "schema_nodes.rs": "schema::verif",
    "union_lookup.rs": "schema::union_variants_per_type_lookup::verif",
    "self_referential.rs": "schema::self_referential::verif",
    "rabin.rs": "schema::safe::rabin::verif",
    "canonical_form.rs": "schema::safe::canonical_form::verif",
    "de_read.rs": "de::read::verif",
    "de_deserializer.rs": "de::deserializer::verif",
    "ser.rs": "ser::verif",
    "ser_serializer.rs": "ser::serializer::verif",
    "single_object.rs": "single_object_encoding::verif",
    "ocf_writer.rs": "object_container_file_encoding::writer::verif",
    "vectored_write.rs": "object_container_file_encoding::writer::vectored_write_polyfill::verif",
    "ocf_reader.rs": "object_container_file_encoding::reader::verif",
}

MEM_LIMIT = int(os.environ.get("VERIF_MEM_GB", "20")) * (1 << 30)


# ------------------------------------------------------------------------------------------------
# harness discovery: annotations in the harness sources are the single source of truth
#   // @harness props=C03,C04 tier=quick timeout=300 [expect=fail] [finding=F1]
#   // @bound <free text, may repeat>
#   #[kani::proof] #[kani::unwind(N)] #[kani::stub(..)] fn name() {

class Harness:
    def __init__(self):
        self.name = None
        self.file = None
        self.module = None
        self.props = []
        self.tier = "quick"
        self.timeout = 600
        self.expect = "pass"     # pass | fail (vacuity twin: must be violated)
        self.finding = None      # id in known_findings.json this harness isolates
        self.also = []           # properties this harness additionally serves in the thorough tier only
        self.bounds = []
        self.unwind = None
        self.stubs = []
        self.covers = 0

    @property
    def full(self):
        return self.module + "::" + self.name


def discover():
    out = []
    for path in sorted(glob.glob(os.path.join(HARNESS_DIR, "*.rs"))):
        base = os.path.basename(path)
        if base not in MOUNTS:
            continue
        lines = open(path).read().split("\n")
        cur = None
        for i, line in enumerate(lines):
            s = line.strip()
            m = re.match(r"// @harness\s+(.*)", s)
            if m:
                cur = Harness()
                cur.file = base
                cur.module = MOUNTS[base]
                for kv in m.group(1).split():
                    k, _, v = kv.partition("=")
                    if k == "props":
                        cur.props = v.split(",")
                    elif k == "also":
                        cur.also = v.split(",")
                    elif k == "tier":
                        cur.tier = v
                    elif k == "timeout":
                        cur.timeout = int(v)
                    elif k == "expect":
                        cur.expect = v
                    elif k == "finding":
                        cur.finding = v
                continue
            if cur is None:
                continue
            m = re.match(r"// @bound\s+(.*)", s)
            if m:
                cur.bounds.append(m.group(1))
                continue
            m = re.match(r"#\[kani::unwind\((\d+)\)\]", s)
            if m:
                cur.unwind = int(m.group(1))
                continue
            m = re.match(r"#\[kani::stub\(([^,]+),", s)
            if m:
                cur.stubs.append(m.group(1).strip())
                continue
            m = re.match(r"(?:pub(?:\(crate\))?\s+)?fn\s+([A-Za-z0-9_]+)\s*\(", s)
            if m:
                cur.name = m.group(1)
                # count cover! points in the body (until next harness annotation)
                body = []
                for l2 in lines[i:]:
                    if l2.strip().startswith("// @harness"):
                        break
                    body.append(l2)
                cur.covers = sum(l2.count("kani::cover!") for l2 in body)
                out.append(cur)
                cur = None
    names = [h.name for h in out]
    dup = {n for n in names if names.count(n) > 1}
    if dup:
        raise SystemExit("duplicate harness names: %s" % sorted(dup))
    return out


def load_known():
    if not os.path.exists(KNOWN):
        return {"open": [], "fixed": []}
    return json.load(open(KNOWN))


# ------------------------------------------------------------------------------------------------

def limit_mem():
    try:
        resource.setrlimit(resource.RLIMIT_AS, (MEM_LIMIT, MEM_LIMIT))
    except Exception:
        pass


def kani_env(harness_dir=HARNESS_DIR):
    env = dict(os.environ)
    env["SAF_VERIF"] = harness_dir
    env["CARGO_NET_OFFLINE"] = "true"
    env.pop("RUSTFLAGS", None)
    env.pop("CARGO_TARGET_DIR", None)
    return env


def run_kani(harnesses, jobs, tag, extra=None, harness_dir=HARNESS_DIR, timeout=None):
    """One cargo-kani invocation for a set of harnesses. Returns (json or None, log text, wall)."""
    os.makedirs(WORK, exist_ok=True)
    out_json = os.path.join(WORK, tag + ".json")
    log_path = os.path.join(WORK, tag + ".log")
    if os.path.exists(out_json):
        os.remove(out_json)
    per_harness_to = max(h.timeout for h in harnesses)
    cmd = ["cargo", "kani", "-Z", "stubbing", "-Z", "unstable-options",
           "--target-dir", os.path.join(TARGET, "kani"),
           "--output-format", "terse", "--export-json", out_json,
           "--harness-timeout", "%ds" % per_harness_to, "--exact"]
    if jobs > 1:
        cmd += ["-j", str(jobs)]
    for h in harnesses:
        cmd += ["--harness", h.full]
    if extra:
        cmd += extra
    t0 = time.time()
    overall = timeout or (per_harness_to * (1 + (len(harnesses) - 1) // max(jobs, 1)) + 900)
    with open(log_path, "w") as lf:
        lf.write("$ " + " ".join(cmd) + "\n")
        lf.flush()
        try:
            p = subprocess.run(cmd, cwd=CRATE, env=kani_env(harness_dir), stdout=lf,
                               stderr=subprocess.STDOUT, timeout=overall, preexec_fn=limit_mem)
            rc = p.returncode
        except subprocess.TimeoutExpired:
            rc = -9
            lf.write("\n[run.py] overall timeout after %ds\n" % overall)
    wall = time.time() - t0
    log = open(log_path, errors="replace").read()
    data = None
    if os.path.exists(out_json):
        try:
            data = json.load(open(out_json))
        except Exception as e:  # truncated file
            log += "\n[run.py] could not parse export json: %s\n" % e
    return data, log, wall, rc, cmd


REPO_SRC_RE = re.compile(r"serde_avro_fast/src/")


def summarize(data, harnesses):
    """Per-harness verdicts from kani's exported json."""
    res = {}
    if data is None:
        return res
    stats = {c["harness_id"]: c for c in data.get("cbmc", [])}
    props = {p["harness_id"]: p["property_details"] for p in data.get("property_details", [])}
    errs = {e["harness_id"]: e for e in data.get("error_details", [])}
    for r in data.get("verification_results", {}).get("results", []):
        hid = r["harness_id"]
        checks = r.get("checks", [])
        failed = [c for c in checks if c.get("status") == "Failure"]
        undecided = [c for c in checks if c.get("status") not in ("Success", "Unreachable", "Satisfied", "Covered", "Failure", "Unsatisfiable", "Uncovered")]
        covers = [c for c in checks if c.get("category") == "cover" or "cover" in (c.get("property_class") or "")]
        funcs = {}
        repo_checks = 0
        repo_locs = set()
        harness_asserts = []
        for c in checks:
            fn = c.get("function") or "?"
            loc = c.get("location") or {}
            f = loc.get("file") or ""
            if c.get("status") != "Unreachable":
                funcs.setdefault(fn, f)
            if REPO_SRC_RE.search(f) and c.get("status") == "Success":
                repo_checks += 1
                repo_locs.add((f, loc.get("line"), c.get("description")))
            if "/harness/" in f and c.get("category") == "assertion" and (c.get("description") or "").startswith('"'):
                harness_asserts.append(c)
        res[hid] = {
            "status": r.get("status"),
            "duration_ms": r.get("duration_ms"),
            "checks": checks,
            "failed": failed,
            "undecided": len(undecided),
            "funcs": funcs,
            "repo_checks": repo_checks,
            "repo_locs": repo_locs,
            "harness_asserts": harness_asserts,
            "props": props.get(hid, {}),
            "cbmc": (stats.get(hid) or {}).get("cbmc_stats") or {},
            "errors": errs.get(hid, {}),
        }
    return res


def classify(h, r):
    """-> (verdict, detail). verdict in pass | fail | unwind | inconclusive"""
    if r is None:
        return "inconclusive", "no result for harness (compile error, timeout or crash)"
    pd = r["props"]
    er = r.get("errors") or {}
    if er.get("exit_status") in ("out_of_memory", "timeout"):
        return "inconclusive", "CBMC %s" % er.get("exit_status")
    if pd.get("total_properties") is None:
        return "inconclusive", "no property details (%s)" % (er.get("exit_status") or pd.get("error"))
    if not r["failed"] and (pd.get("undetermined", 0) or pd.get("solver_error", 0) or r.get("undecided")):
        return "inconclusive", "undetermined/solver-error checks (memory or time limit hit inside CBMC)"
    if r["failed"]:
        descs = sorted({(c.get("description") or "") for c in r["failed"]})
        only_unwind = all("unwinding assertion" in d for d in descs)
        unsupported = [d for d in descs if "not currently supported" in d or "unsupported" in d.lower()]
        if unsupported and len(unsupported) == len(descs):
            return "inconclusive", "unsupported construct reached: %s" % unsupported[:2]
        if only_unwind:
            return "unwind", "unwinding assertion failed: a loop/recursion exceeds unwind(%s)" % h.unwind
        return "fail", "; ".join(descs)[:600]
    if r["status"] != "Success":
        return "inconclusive", "status=%s" % r["status"]
    if pd.get("unsatisfiable", 0):
        return "inconclusive", "%d cover(s) unsatisfiable: harness does not reach what it claims" % pd["unsatisfiable"]
    return "pass", ""


# ------------------------------------------------------------------------------------------------
# counterexample extraction + native replay (kani concrete playback against the real build)

def extract_playback_tests(log):
    tests = []
    for m in re.finditer(r"```\n(.*?)```", log, re.S):
        body = m.group(1)
        if "kani::concrete_playback_run" in body:
            # keep cover witnesses too: Kani de-duplicates identical value vectors, so the failing
            # trace may only be printed under a cover's heading
            tests.append(body)
    return tests


def decode_vals(test_src):
    vals = []
    for m in re.finditer(r"^\s*//\s*(.*)\n\s*vec!\[([0-9, ]*)\]", test_src, re.M):
        by = [int(x) for x in m.group(2).split(",") if x.strip()]
        vals.append({"comment": m.group(1).strip(), "bytes": by})
    return vals


def counterexample(h, tag):
    """Re-run a failing harness alone with concrete playback; returns list of test sources."""
    data, log, wall, rc, cmd = run_kani([h], 1, tag + "_cex",
                                        extra=["-Z", "concrete-playback", "--concrete-playback=print"])
    return extract_playback_tests(log), log


def native_replay(h, tests, tag, release=False):
    """Append generated tests to a copy of the harness dir and run `cargo kani playback`.
    Returns (reproduced: bool|None, output)."""
    rdir = os.path.join(HERE, ".replay", tag)
    if os.path.exists(rdir):
        shutil.rmtree(rdir)
    os.makedirs(rdir)
    hdir = os.path.join(rdir, "harness")
    shutil.copytree(HARNESS_DIR, hdir)
    names = []
    with open(os.path.join(hdir, h.file), "a") as f:
        for t in tests:
            f.write("\n" + t + "\n")
            names += re.findall(r"fn (kani_concrete_playback_\w+)", t)
    env = kani_env(hdir)
    env["CARGO_TARGET_DIR"] = os.path.join(TARGET, "playback")
    env["RUST_BACKTRACE"] = "0"
    cmd = ["cargo", "kani", "playback", "-Z", "concrete-playback", "--lib"]
    if release:
        # `cargo kani playback` has no --release: override the test/dev profiles through the environment instead
        for prof in ("TEST", "DEV"):
            env["CARGO_PROFILE_%s_OPT_LEVEL" % prof] = "3"
            env["CARGO_PROFILE_%s_DEBUG_ASSERTIONS" % prof] = "false"
            env["CARGO_PROFILE_%s_OVERFLOW_CHECKS" % prof] = "false"
        env["CARGO_TARGET_DIR"] = os.path.join(TARGET, "playback_release")
    cmd += ["--", "kani_concrete_playback_" + h.name + "_", "--test-threads", "1"]
    try:
        p = subprocess.run(cmd, cwd=CRATE, env=env, stdout=subprocess.PIPE, stderr=subprocess.STDOUT,
                           timeout=1800)
        out = p.stdout.decode(errors="replace")
        rc = p.returncode
    except subprocess.TimeoutExpired as e:
        out = (e.stdout or b"").decode(errors="replace") + "\n[run.py] native replay timed out (treated as reproduced hang)\n"
        return True, out
    shutil.rmtree(rdir, ignore_errors=True)
    failed = re.findall(r"test \S*(kani_concrete_playback_\w+) \.\.\. FAILED", out)
    passed = re.findall(r"test \S*(kani_concrete_playback_\w+) \.\.\. ok", out)
    crashed = ("SIGSEGV" in out or "SIGABRT" in out or "overflowed its stack" in out or "signal:" in out)
    if failed or crashed:
        return True, out
    if passed:
        return False, out
    return None, out


# ------------------------------------------------------------------------------------------------

def write_evidence(prop, tier, seed, harnesses, results, verdicts, wall, violations, notes, cmdline, replays, known_lines):
    os.makedirs(EVIDENCE, exist_ok=True)
    funcs = {}
    obligations = 0
    discharged = 0
    repo_locs = set()
    steps = 0
    vccs = 0
    solver_s = 0.0
    symex_s = 0.0
    covers_sat = 0
    hlist = []
    samples = []
    for h in harnesses:
        r = results.get(h.full)
        v, detail = verdicts[h.full]
        entry = {"harness": h.full, "tier": h.tier, "unwind": h.unwind, "bounds": h.bounds,
                 "stubs": h.stubs, "expect": h.expect, "verdict": v}
        if detail:
            entry["detail"] = detail
        if h.finding:
            entry["isolates_finding"] = h.finding
        if r:
            pd = r["props"]
            obligations += pd.get("total_properties") or 0
            discharged += (pd.get("passed") or 0) + (pd.get("unreachable") or 0) + (pd.get("satisfied") or 0)
            covers_sat += pd.get("satisfied") or 0
            cs = r["cbmc"]
            steps += int(cs.get("size_program_expression") or 0)
            vccs += int(cs.get("vccs_generated") or 0)
            solver_s += float(cs.get("runtime_solver_s") or 0) + float(cs.get("runtime_decision_procedure_s") or 0)
            symex_s += float(cs.get("runtime_symex_s") or 0)
            entry.update({
                "checks_total": pd.get("total_properties"), "checks_failed": pd.get("failed"),
                "checks_unreachable": pd.get("unreachable"), "covers_satisfied": pd.get("satisfied"),
                "covers_unsatisfiable": pd.get("unsatisfiable"),
                "checks_in_repo_source_proved": r["repo_checks"],
                "ssa_steps": cs.get("size_program_expression"), "vccs": cs.get("vccs_generated"),
                "vccs_after_simplification": cs.get("vccs_remaining"),
                "symex_s": cs.get("runtime_symex_s"), "solver_s": cs.get("runtime_solver_s"),
                "wall_ms": r.get("duration_ms"),
            })
            for fn, f in r["funcs"].items():
                if REPO_SRC_RE.search(f) and "/verif" not in fn.replace("::verif", "/verif"):
                    funcs[fn] = f
            repo_locs |= r["repo_locs"]
            for c in r["harness_asserts"][:3]:
                samples.append({"harness": h.name, "obligation": c.get("description"),
                                "status": c.get("status"), "kind": "harness assertion (property oracle)"})
        hlist.append(entry)
    # a few proved obligations that sit inside the real code
    for (f, line, desc) in sorted(repo_locs, key=lambda x: (x[0], x[1] or 0))[:8]:
        samples.append({"kind": "built-in check inside repo code", "file": f[f.find("serde_avro_fast/src"):], "line": line, "obligation": desc, "status": "Success"})
    for rp in replays:
        samples.append({"kind": "counterexample replayed natively", **rp})
    if not samples:
        samples.append({"kind": "none", "note": "no harness produced a result"})
    n_ok = sum(1 for h in harnesses if verdicts[h.full][0] == "pass" and h.expect == "pass")
    ev = {
        "property_id": prop,
        "tier": tier,
        "seed": seed,
        "level": "model_checking",
        "coverage": {
            "states": max(steps, 1),
            "transitions": max(vccs, 1),
            "traces_validated_against_impl": len(replays),
            "samples": samples[:40],
            "evaluations": max(obligations, 1),
            "distinct_nontrivial": max(len(repo_locs), 2 if n_ok else 0) if obligations else 0,
            "rule": ("bounded model checking (Kani 0.68 / CBMC 6.11, CaDiCaL): each harness is one symbolic execution of the "
                     "real compiled functions over kani::any() inputs; 'evaluations' = CBMC properties (obligations) decided, "
                     "'distinct_nontrivial' = distinct reachable obligations located inside /repo source lines that were proved, "
                     "'states' = SSA steps of the unwound program (CBMC 'size of program expression'), "
                     "'transitions' = verification conditions generated. No sampling: every verdict is a SAT/UNSAT answer over all "
                     "values inside the stated bounds."),
            "obligations": obligations,
            "discharged": discharged,
            "covers_satisfied": covers_sat,
            "checker_cmd": cmdline,
            "trusted_base": ["Kani 0.68.0 MIR->goto translation", "CBMC 6.11.0 symbolic execution", "CaDiCaL SAT solver",
                             "reference model /verif/harness/spec.rs (written from the Avro specification)",
                             "LinearMap model of std::collections::HashMap (cfg(kani) only)"],
            "harnesses": hlist,
            "functions_encoded": sorted(funcs.keys())[:400],
            "functions_encoded_count": len(funcs),
            "solver_time_s": round(solver_s, 3),
            "symex_time_s": round(symex_s, 3),
            "exhaustive": False,
            "explanation": "bounds per harness are listed under harnesses[].bounds/unwind; unwinding assertions are ON, so a loop "
                           "needing more iterations than the bound fails the harness instead of being truncated",
            "known_findings_reported": known_lines,
        },
        "assumptions": [
            "alloc::fmt::format is stubbed to return an empty String (error text is outside every claim; error presence is not)",
            "writers used by harnesses cannot fail unless failure is the subject (FixedBuf: capacity assumed sufficient)",
            "under cfg(kani) Record/Enum/union name tables use LinearMap instead of std HashMap (HashMap assumed to be a correct map)",
            "schema nodes are compile-time constants built by /verif/harness/schema_nodes.rs, not by the JSON parser",
        ] + notes,
        "wall_s": round(wall, 2),
        "violations": violations,
    }
    with open(os.path.join(EVIDENCE, prop + ".json"), "w") as f:
        json.dump(ev, f, indent=1, default=str)


def do_replay(path):
    rp = json.load(open(path))
    hs = {h.name: h for h in discover()}
    h = hs.get(rp["harness"])
    if h is None:
        print("unknown harness", rp["harness"])
        return 2
    ok, out = native_replay(h, rp["tests"], "manual_" + h.name)
    print(out[-4000:])
    print("reproduced" if ok else "NOT reproduced")
    return 1 if ok else 0


def main():
    ap = argparse.ArgumentParser()
    ap.add_argument("prop", nargs="?")
    ap.add_argument("--tier", default=os.environ.get("VERIF_TIER", "quick"))
    ap.add_argument("--jobs", type=int, default=int(os.environ.get("VERIF_JOBS", "12")))
    ap.add_argument("--only")
    ap.add_argument("--no-replay", action="store_true")
    ap.add_argument("--replay")
    ap.add_argument("--list", action="store_true")
    ap.add_argument("--cap", type=int, help="override every harness timeout (probing)")
    a = ap.parse_args()
    seed = int(os.environ.get("VERIF_SEED", "0") or 0)

    if a.replay:
        sys.exit(do_replay(a.replay))
    allh = discover()
    if a.list:
        for h in allh:
            print("%-14s %-8s %-44s %s" % (",".join(h.props) + ("+" + ",".join(h.also) if h.also else ""), h.tier, h.name, h.file))
        return
    prop = a.prop
    tier = a.tier if a.tier in ("quick", "thorough") else "quick"
    hs = [h for h in allh if h.tier != "off" and ((prop in h.props and (tier == "thorough" or h.tier == "quick"))
          or (prop in h.also and tier == "thorough"))]
    if a.only:
        hs = [h for h in hs if a.only in h.name]
    if a.cap:
        for h in hs:
            h.timeout = a.cap
    if not hs:
        print("no harness for", prop)
        sys.exit(2)
    known = load_known()
    open_findings = {k["id"]: k for k in known.get("open", []) if k.get("property") == prop or prop in k.get("properties", [])}

    t0 = time.time()
    tag = "%s_%s" % (prop, tier)
    data, log, wall, rc, cmd = run_kani(hs, a.jobs, tag)
    results = summarize(data, hs)
    # harnesses missing from a crashed/timeouted batch are re-run alone once (isolates one heavy harness from the rest)
    missing = [h for h in hs if h.full not in results]
    if missing and len(hs) > 1 and data is not None:
        for h in missing:
            d2, l2, w2, rc2, _ = run_kani([h], 1, tag + "_" + h.name)
            results.update(summarize(d2, [h]))
            log += l2
    verdicts = {}
    violations = 0
    inconclusive = []
    replays = []
    known_lines = []
    out_lines = []
    for h in hs:
        r = results.get(h.full)
        v, detail = classify(h, r)
        verdicts[h.full] = (v, detail)
        if h.expect == "fail":
            # vacuity twin: must be violated
            if v == "fail":
                verdicts[h.full] = ("pass", "twin violated as required: " + detail[:120])
            elif v == "pass":
                verdicts[h.full] = ("inconclusive", "reachability twin was NOT violated: harness family is vacuous")
                inconclusive.append(h)
            else:
                inconclusive.append(h)
            continue
        if v == "pass":
            if h.finding and h.finding in open_findings:
                out_lines.append("NOTE: finding %s listed as open no longer reproduces in %s" % (h.finding, h.name))
            continue
        if v == "inconclusive":
            inconclusive.append(h)
            continue
        # fail or unwind: candidate violation -> concrete counterexample -> native replay
        if h.finding and h.finding in open_findings:
            kf = open_findings[h.finding]
            line = "KNOWN-FINDING: property=%s %s [%s] %s" % (prop, kf["id"], h.name, kf["what"])
            known_lines.append(line)
            out_lines.append(line)
            verdicts[h.full] = ("known-finding", detail)
            continue
        if a.no_replay:
            violations += 1
            out_lines.append("UNREPLAYED-FAILURE harness=%s %s" % (h.name, detail[:300]))
            continue
        tests, cexlog = counterexample(h, tag + "_" + h.name)
        os.makedirs(REPLAYS, exist_ok=True)
        rpath = os.path.join(REPLAYS, "%s_%s.json" % (prop, h.name))
        rec = {"property": prop, "harness": h.name, "module": h.module, "failed_checks": detail,
               "tests": tests, "values": [decode_vals(t) for t in tests],
               "how": "python3 /verif/run.py --replay " + rpath}
        if not tests:
            # no concrete trace (e.g. pure unwinding failure without trace): cannot confirm
            rec["native"] = "no concrete playback test produced"
            json.dump(rec, open(rpath, "w"), indent=1)
            verdicts[h.full] = ("inconclusive", detail + " (no counterexample trace could be extracted)")
            inconclusive.append(h)
            continue
        ok_dev, out_dev = native_replay(h, tests, tag + "_" + h.name)
        rec["native_dev"] = {"reproduced": ok_dev, "tail": out_dev[-3000:]}
        ok_rel = None
        if ok_dev:
            ok_rel, out_rel = native_replay(h, tests, tag + "_" + h.name + "_rel", release=True)
            rec["native_release"] = {"reproduced": ok_rel, "tail": out_rel[-1500:]}
        json.dump(rec, open(rpath, "w"), indent=1)
        if ok_dev:
            violations += 1
            replays.append({"harness": h.name, "values": rec["values"][:1], "reproduced_dev": ok_dev, "reproduced_release": ok_rel})
            out_lines.append("VIOLATION property=%s replay=%s" % (prop, rpath))
            out_lines.append("  harness=%s failed: %s" % (h.name, detail[:300]))
        else:
            verdicts[h.full] = ("inconclusive", detail + " (counterexample did not reproduce natively: encoding/stub suspect)")
            inconclusive.append(h)
    wall = time.time() - t0
    notes = []
    if inconclusive:
        notes.append("INCONCLUSIVE harnesses this run: " + ", ".join(h.name for h in inconclusive))
    write_evidence(prop, tier, seed, hs, results, verdicts, wall, violations, notes, " ".join(cmd), replays, known_lines)
    for h in hs:
        v, d = verdicts[h.full]
        r = results.get(h.full)
        ms = (r or {}).get("duration_ms")
        print("%-14s %-44s %6ss %s" % (v, h.name, ("%.0f" % (ms / 1000.0)) if ms else "?", d[:140]))
    for l in out_lines:
        print(l)
    print("property=%s tier=%s harnesses=%d violations=%d inconclusive=%d wall=%.0fs" % (prop, tier, len(hs), violations, len(inconclusive), wall))
    if violations:
        sys.exit(1)
    if inconclusive:
        # print the tail of the log to help debugging
        sys.stderr.write(log[-3000:] + "\n")
        sys.exit(2)
    sys.exit(0)


if __name__ == "__main__":
    main()
