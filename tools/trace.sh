#!/bin/bash
# trace.sh <full::harness::path> <secs> [topN]: which loops/recursions CBMC unwinds (finds the exploding location)
REPO=${VERIF_REPO:-/repo}; H=${VERIF_HARNESS:-/verif/harness}; T=${VERIF_TARGET:-/verif/.target}
cd $REPO/serde_avro_fast
SAF_VERIF=$H CARGO_NET_OFFLINE=true timeout $2 cargo kani -Z stubbing --target-dir $T/kani --exact --harness $1 --output-format old > /verif/.work/trace.log 2>&1
grep 'Unwinding' /verif/.work/trace.log | sed 's/.*Unwinding recursion \(.*\) iteration.*/REC \1/; s/.*function \(.*\) thread.*/\1/' | sort | uniq -c | sort -rn | head -${3:-25}
grep -c . /verif/.work/trace.log; grep 'Runtime Symex\|size of program\|VERIFICATION\|variables' /verif/.work/trace.log | head
