#!/bin/bash
cd /verif
run() { python3 tools/seed_eval.py "$@" >> .work/seed_eval2.log 2>&1; }
: > .work/seed_eval2.log
run C02 3 C02
run C02 4 C02
run C03 3 C03
run C03 4 C03 C04
run C04 3 C04
run C04 4 C04 C11
echo ALLDONE >> .work/seed_eval2.log
