#!/usr/bin/env python3
"""seed_eval.py <PROP> <N> [props-to-run...]: apply seeded mutant N of /tmp/wt_<PROP> to /repo, run the quick
checks of the given properties (default: PROP) without replay, record which harnesses object, undo the patch.
Writes /verif/seeded/<PROP>_m<N>/{patch.diff,demo.rs,meta.json}."""
import sys, os, subprocess, json, shutil, re
P, N = sys.argv[1], sys.argv[2]
props = sys.argv[3:] or [P]
W = "/tmp/wt_%s" % P
out = "/verif/seeded/%s_m%s" % (P, N)
os.makedirs(out, exist_ok=True)
shutil.copy("%s/mutant%s.diff" % (W, N), out + "/patch.diff")
shutil.copy("%s/demo%s.rs" % (W, N), out + "/demo.rs")
assert subprocess.call(["git", "-C", "/repo", "status", "--porcelain", "--untracked-files=no"], stdout=subprocess.DEVNULL) == 0
st = subprocess.check_output(["git", "-C", "/repo", "status", "--porcelain", "--untracked-files=no"]).decode().strip()
assert st == "", "repo not clean: " + st
subprocess.check_call(["git", "-C", "/repo", "apply", out + "/patch.diff"])
res = {}
try:
    for pr in props:
        p = subprocess.run(["python3", "/verif/run.py", pr, "--no-replay"], cwd="/verif", stdout=subprocess.PIPE, stderr=subprocess.DEVNULL)
        txt = p.stdout.decode(errors="replace")
        bad = [l for l in txt.split("\n") if re.match(r"^(fail|unwind|inconclusive)\s", l)]
        res[pr] = {"exit": p.returncode, "objecting_harnesses": [l.split()[1] + " :: " + " ".join(l.split()[3:])[:160] for l in bad if not l.startswith("inconclusive")],
                   "inconclusive": [l.split()[1] for l in bad if l.startswith("inconclusive")],
                   "summary": [l for l in txt.split("\n") if l.startswith("property=")]}
finally:
    subprocess.check_call(["git", "-C", "/repo", "checkout", "--", "."])
conf = open("%s/confirm%s.txt" % (W, N)).read() if os.path.exists("%s/confirm%s.txt" % (W, N)) else ""
meta_path = out + "/meta.json"
meta = json.load(open(meta_path)) if os.path.exists(meta_path) else {}
meta.update({"breaks_property": P, "mutant": int(N), "confirmed_in_scratch_worktree": conf.strip().split("\n"),
             "checks_run": res, "caught": any(r["objecting_harnesses"] for r in res.values())})
json.dump(meta, open(meta_path, "w"), indent=1)
print(P, N, "CAUGHT" if meta["caught"] else "MISSED", {k: v["objecting_harnesses"][:3] for k, v in res.items()})
