#!/bin/bash
# seed_confirm.sh <PROP> <N>: confirm in the scratch worktree /tmp/wt_<PROP> that mutant N compiles, passes the
# existing suite, and that demoN fails with it and passes without it. Writes /tmp/wt_<PROP>/confirmN.txt
P=$1; N=$2; W=/tmp/wt_$P
cd $W || exit 2
export CARGO_TARGET_DIR=$W/target CARGO_NET_OFFLINE=true
git checkout -q -- . ; rm -f serde_avro_fast/tests/demo*.rs
out=$W/confirm$N.txt; : > $out
cp demo$N.rs serde_avro_fast/tests/demo$N.rs
cargo test -p serde_avro_fast --offline --test demo$N > $W/c_clean.log 2>&1; echo "demo_on_clean_rc=$?" >> $out
git apply mutant$N.diff || { echo "apply_failed" >> $out; exit 1; }
cargo test -p serde_avro_fast --offline --test demo$N > $W/c_mut.log 2>&1; echo "demo_on_mutant_rc=$?" >> $out
rm -f serde_avro_fast/tests/demo$N.rs
cargo test --workspace --no-fail-fast --offline > $W/c_suite.log 2>&1; echo "suite_on_mutant_rc=$?" >> $out
grep -E '^test .* \.\.\. ' $W/c_suite.log | awk '{print $NF}' | sort | uniq -c | tr '\n' ' ' >> $out; echo >> $out
git checkout -q -- . ; rm -f serde_avro_fast/tests/demo*.rs
cat $out
