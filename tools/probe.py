#!/usr/bin/env python3
"""probe.py <harness-substring> [timeout_s]: run one harness under a hard cap and print CBMC stats."""
import sys, os, json, subprocess, time
sys.path.insert(0, os.path.join(os.path.dirname(os.path.abspath(__file__)), ".."))
import run
name = sys.argv[1]; to = int(sys.argv[2]) if len(sys.argv) > 2 else 120
hs = [h for h in run.discover() if h.name == name] or [h for h in run.discover() if name in h.name]
h = hs[0]; h.timeout = to
t0 = time.time()
data, log, wall, rc, cmd = run.run_kani([h], 1, "probe_" + h.name, timeout=to + 120)
res = run.summarize(data, [h])
r = res.get(h.full)
v, d = run.classify(h, r)
print(h.name, v, d[:300], "wall=%.0fs" % wall)
if r:
    print(" stats:", r["cbmc"]); print(" props:", r["props"])
else:
    print(log[-1500:])
