#!/bin/bash
# evaluate every seeded mutant against the quick checks (sequential, on /repo itself)
cd /verif
run() { python3 tools/seed_eval.py "$@" >> .work/seed_eval.log 2>&1; }
: > .work/seed_eval.log
run C02 1 C02
run C02 2 C02
run C03 1 C03 C04
run C03 2 C03 C12
run C04 1 C04
run C04 2 C04
run C11 1 C11
run C11 2 C11
run C12 1 C12
run C12 2 C12 C11
run C18 1 C18
run C18 2 C18
run C01 1 C01 C02
run C01 2 C01 C03
run C19 1 C19
run C19 2 C19
run C08 1 C08
run C08 2 C08
echo ALLDONE >> .work/seed_eval.log
