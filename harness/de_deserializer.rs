// Mounted in serde_avro_fast::de::deserializer — datum deserializer harnesses (C01 C03 C04 C12)
use super::*;
use crate::de::read::{ReaderRead, SliceRead};
use crate::schema::verif as nodes;
use crate::verif::{io::*, spec, spec::Enc, targets::*};

/// Real slice deserializer on a constant/stack node. Returns (result, bytes consumed).
pub(crate) fn de_slice<'de, T: serde::Deserialize<'de>>(
	node: &'static SchemaNode<'static>,
	data: &'de [u8],
) -> (Result<T, DeError>, usize) {
	let mut st = DeserializerState::from_schema_node(SliceRead::new(data), nodes::nref(node));
	let r = T::deserialize(st.deserializer());
	let left = std::io::BufRead::fill_buf(&mut st.reader).map(|b| b.len()).unwrap_or(0);
	(r, data.len() - left)
}
pub(crate) fn de_slice_cfg<'de, T: serde::Deserialize<'de>>(
	node: &'static SchemaNode<'static>,
	data: &'de [u8],
	max_seq_size: usize,
	allowed_depth: usize,
) -> (Result<T, DeError>, usize) {
	let mut cfg = DeserializerConfig::from_schema_node(nodes::nref(node));
	cfg.max_seq_size = max_seq_size;
	cfg.allowed_depth = allowed_depth;
	let mut st = DeserializerState::with_config(SliceRead::new(data), cfg);
	let r = T::deserialize(st.deserializer());
	let left = std::io::BufRead::fill_buf(&mut st.reader).map(|b| b.len()).unwrap_or(0);
	(r, data.len() - left)
}
/// Real reader deserializer over a chunked BufRead. Returns (result, bytes consumed from the stream).
pub(crate) fn de_reader_cfg<T: serde::de::DeserializeOwned>(
	node: &'static SchemaNode<'static>,
	data: &[u8],
	chunk: usize,
	max_seq_size: usize,
	allowed_depth: usize,
	max_alloc_size: usize,
) -> (Result<T, DeError>, usize) {
	let mut cfg = DeserializerConfig::from_schema_node(nodes::nref(node));
	cfg.max_seq_size = max_seq_size;
	cfg.allowed_depth = allowed_depth;
	let mut rr = ReaderRead::new(Chunked::new(data, chunk));
	rr.max_alloc_size = max_alloc_size;
	let mut st = DeserializerState::with_config(rr, cfg);
	let r = T::deserialize(st.deserializer());
	let used = crate::de::read::verif::consumed(&st.reader);
	std::mem::forget(st);
	(r, used)
}

fn expect_ok<T>(r: &Result<T, DeError>, used: usize, want_used: usize) -> bool {
	r.is_ok() && used == want_used
}

// =============================================================================================
// C03 / C01 (decode half) / C04 (slice path totality): the REAL decoder against the reference
// decoder (spec::Dec) on EVERY byte string within the length bound:
//   real Ok(v)              => reference decodes the same v and the same length (nothing fabricated)
//   reference Some(v), canonical => real Ok(v)              (every spec-valid encoding decodes)
//   reference None          => real Err                     (truncation, negative length, bad index...)
// plus Kani's built-in checks on the real code (no panic / overflow / out-of-bounds, loops bounded).

// @harness props=C03,C04,C01 tier=quick timeout=900
// @bound long: every byte string of length 0..=11; unwind 13
#[kani::proof]
#[kani::unwind(13)]
#[kani::stub(alloc::fmt::format, crate::verif::stub_format)]
fn c03_diff_long() {
	let data: [u8; 11] = kani::any();
	let len: usize = kani::any();
	kani::assume(len <= 11);
	let s = &data[..len];
	let mut d = spec::Dec::new(s);
	let want = d.long();
	let (r, used) = de_slice::<i64>(&nodes::LONG, s);
	kani::cover!(want == Some(i64::MIN));
	kani::cover!(want.is_none() && len == 11);
	kani::cover!(d.noncanon && r.is_ok());
	match (&r, want) {
		(Ok(v), Some(w)) => assert!(*v == w && used == d.pos, "c03_diff_long: value/length differs from the reference decoder"),
		(Ok(_), None) => assert!(false, "c03_diff_long: invalid encoding produced a value"),
		(Err(_), Some(_)) => assert!(d.noncanon, "c03_diff_long: valid encoding rejected"),
		(Err(_), None) => {}
	}
	std::mem::forget(r);
	kani::cover!(true, "end of harness reached");
}

// Reachability twin: must come back VIOLATED (the runner treats SUCCESS here as a broken check)
// @harness props=C01,C03,C04,C12 tier=quick timeout=600 expect=fail
// @bound same as c03_diff_long
#[kani::proof]
#[kani::unwind(13)]
#[kani::stub(alloc::fmt::format, crate::verif::stub_format)]
fn twin_dec_long() {
	let data: [u8; 11] = kani::any();
	let len: usize = kani::any();
	kani::assume(len <= 11);
	let (r, used) = de_slice::<i64>(&nodes::LONG, &data[..len]);
	assert!(!(r.is_ok() && used == 10), "twin: reached end of harness with a 10-byte varint");
	std::mem::forget(r);
	kani::cover!(true, "end of harness reached");
}

// @harness props=C03,C04,C01 tier=quick timeout=900
// @bound int: every byte string of length 0..=6 (values needing more than 32 bits: no assertion on the value)
#[kani::proof]
#[kani::unwind(13)]
#[kani::stub(alloc::fmt::format, crate::verif::stub_format)]
fn c03_diff_int() {
	let data: [u8; 6] = kani::any();
	let len: usize = kani::any();
	kani::assume(len <= 6);
	let s = &data[..len];
	let mut d = spec::Dec::new(s);
	let want = d.int();
	let (r, used) = de_slice::<i32>(&nodes::INT, s);
	kani::cover!(want == Some(i32::MIN) && !d.noncanon);
	match (&r, want) {
		(Ok(v), Some(w)) => assert!(d.noncanon || (*v == w && used == d.pos), "c03_diff_int: value/length differs from the reference decoder"),
		(Ok(_), None) => assert!(false, "c03_diff_int: invalid encoding produced a value"),
		(Err(_), Some(_)) => assert!(d.noncanon, "c03_diff_int: valid encoding rejected"),
		(Err(_), None) => {}
	}
	std::mem::forget(r);
	kani::cover!(true, "end of harness reached");
}

fn logical32(node: &'static SchemaNode<'static>) {
	let v: i32 = kani::any();
	let mut e = Enc::<10>::new();
	e.long(v as i64);
	let (r, used) = de_slice::<i32>(node, e.bytes());
	match &r {
		Ok(back) => assert!(*back == v && used == e.len, "c03_dec_logical: wrong value or length (int-based logical type)"),
		Err(_) => assert!(false, "c03_dec_logical: valid encoding rejected (int-based logical type)"),
	}
	std::mem::forget(r);
}
fn logical64(node: &'static SchemaNode<'static>) {
	let w: i64 = kani::any();
	let mut e = Enc::<10>::new();
	e.long(w);
	let (r, used) = de_slice::<i64>(node, e.bytes());
	match &r {
		Ok(back) => assert!(*back == w && used == e.len, "c03_dec_logical: wrong value or length (long-based logical type)"),
		Err(_) => assert!(false, "c03_dec_logical: valid encoding rejected (long-based logical type)"),
	}
	std::mem::forget(r);
}

// @harness props=C03,C01 tier=quick timeout=600
// @bound every i32 under date and time-millis; every i64 under time-micros, timestamp-millis, timestamp-micros (minimal varints)
#[kani::proof]
#[kani::unwind(12)]
#[kani::stub(alloc::fmt::format, crate::verif::stub_format)]
fn c03_dec_logical_int_long() {
	logical32(&nodes::DATE);
	logical32(&nodes::TIME_MILLIS);
	logical64(&nodes::TIME_MICROS);
	logical64(&nodes::TS_MILLIS);
	logical64(&nodes::TS_MICROS);
	kani::cover!(true, "end of harness reached");
}

// @harness props=C03,C01 tier=quick timeout=600
// @bound boolean: every byte 0..=255 (0/1 -> value, others -> Err); float all 2^32 bit patterns; double all 2^64 bit patterns (compared by bits); null
#[kani::proof]
#[kani::unwind(10)]
#[kani::stub(alloc::fmt::format, crate::verif::stub_format)]
fn c03_dec_fixed_width() {
	let b: u8 = kani::any();
	let (r, used) = de_slice::<bool>(&nodes::BOOLEAN, &[b]);
	kani::cover!(b == 2);
	match &r {
		Ok(x) => assert!(b <= 1 && *x == (b == 1) && used == 1, "c03_dec_bool: byte other than 0/1 accepted or wrong value"),
		Err(_) => assert!(b >= 2, "c03_dec_bool: valid boolean rejected"),
	}
	std::mem::forget(r);
	let fb: u32 = kani::any();
	let mut e = Enc::<8>::new();
	e.f32_bits(fb);
	let (r, used) = de_slice::<f32>(&nodes::FLOAT, e.bytes());
	kani::cover!(fb == 0x7fc0_0001);
	match &r {
		Ok(x) => assert!(x.to_bits() == fb && used == 4, "c03_dec_float: bits changed"),
		Err(_) => assert!(false, "c03_dec_float: valid encoding rejected"),
	}
	std::mem::forget(r);
	let db: u64 = kani::any();
	let mut e = Enc::<8>::new();
	e.f64_bits(db);
	let (r, used) = de_slice::<f64>(&nodes::DOUBLE, e.bytes());
	match &r {
		Ok(x) => assert!(x.to_bits() == db && used == 8, "c03_dec_double: bits changed"),
		Err(_) => assert!(false, "c03_dec_double: valid encoding rejected"),
	}
	std::mem::forget(r);
	let (r, used) = de_slice::<()>(&nodes::NULL, &[]);
	assert!(r.is_ok() && used == 0, "c03_dec_null: null must decode from zero bytes");
	std::mem::forget(r);
	kani::cover!(true, "end of harness reached");
}

// @harness props=C03,C04,C01 tier=quick timeout=900
// @bound bytes: every byte string of length 0..=7; Ok result must borrow from the input at the right offset
#[kani::proof]
#[kani::unwind(13)]
#[kani::stub(alloc::fmt::format, crate::verif::stub_format)]
fn c03_diff_bytes() {
	let data: [u8; 7] = kani::any();
	let len: usize = kani::any();
	kani::assume(len <= 7);
	let s = &data[..len];
	let mut d = spec::Dec::new(s);
	let want = d.len_prefixed();
	let (r, used) = de_slice::<BBytes>(&nodes::BYTES, s);
	kani::cover!(want.map_or(false, |w| w.len() == 6));
	kani::cover!(want.is_none() && len == 7 && data[0] < 0x80);
	match (&r, want) {
		(Ok(v), Some(w)) => {
			assert!(used == d.pos && v.0.len() == w.len(), "c03_diff_bytes: length differs from the reference decoder");
			assert!(v.0.as_ptr() == w.as_ptr(), "c03_diff_bytes: result is not the right sub-slice of the input");
		}
		(Ok(_), None) => assert!(false, "c03_diff_bytes: invalid encoding produced a value"),
		(Err(_), Some(_)) => assert!(d.noncanon, "c03_diff_bytes: valid encoding rejected"),
		(Err(_), None) => {}
	}
	std::mem::forget(r);
	kani::cover!(true, "end of harness reached");
}

// @harness props=C03 also=C01 tier=quick timeout=900
// @bound string and uuid: 0..=3 bytes of well-formed UTF-8 (1-, 2-, 3-byte sequences) -> borrowed &str into the input; real core::str::from_utf8
#[kani::proof]
#[kani::unwind(8)]
#[kani::stub(alloc::fmt::format, crate::verif::stub_format)]
fn c03_dec_string_borrowed() {
	let content: [u8; 3] = kani::any();
	let n: usize = kani::any();
	kani::assume(n <= 3);
	kani::assume(spec::utf8_valid(&content[..n]));
	let mut data = [0u8; 4];
	data[0] = (n as u8) << 1;
	data[1] = content[0];
	data[2] = content[1];
	data[3] = content[2];
	let s = &data[..1 + n];
	let (r, used) = de_slice::<BStr>(&nodes::STRING, s);
	kani::cover!(n == 3 && content[0] >= 0xE0);
	kani::cover!(n == 2 && content[0] >= 0xC2);
	match &r {
		Ok(b) => {
			assert!(used == 1 + n && b.0.len() == n, "c03_dec_string: wrong length");
			assert!(b.0.as_ptr() == s[1..].as_ptr(), "c03_dec_string: result does not point into the input slice");
		}
		Err(_) => assert!(false, "c03_dec_string: valid UTF-8 string rejected"),
	}
	std::mem::forget(r);
	kani::cover!(true, "end of harness reached");
}

// @harness props=C03 tier=quick timeout=900
// @bound string: 1..=3 bytes that are NOT well-formed UTF-8 (by the reference validator) must be rejected; real core::str::from_utf8
#[kani::proof]
#[kani::unwind(8)]
#[kani::stub(alloc::fmt::format, crate::verif::stub_format)]
fn c03_bad_utf8() {
	let content: [u8; 3] = kani::any();
	let n: usize = kani::any();
	kani::assume(n >= 1 && n <= 3);
	kani::assume(!spec::utf8_valid(&content[..n]));
	let mut data = [0u8; 4];
	data[0] = (n as u8) << 1;
	data[1] = content[0];
	data[2] = content[1];
	data[3] = content[2];
	let (r, _used) = de_slice::<BStr>(&nodes::STRING, &data[..1 + n]);
	kani::cover!(n == 3 && content[0] == 0xED);
	assert!(r.is_err(), "c03_bad_utf8: ill-formed UTF-8 accepted as string");
	std::mem::forget(r);
	kani::cover!(true, "end of harness reached");
}

// @harness props=C03,C04 also=C01 tier=quick timeout=900
// @bound string: every byte string of length 0..=6 (UTF-8 verdict taken from the reference validator: core::str::from_utf8 stubbed by it)
#[kani::proof]
#[kani::unwind(13)]
#[kani::stub(alloc::fmt::format, crate::verif::stub_format)]
#[kani::stub(std::str::from_utf8, crate::verif::stub_from_utf8)]
fn c03_diff_string() {
	let data: [u8; 6] = kani::any();
	let len: usize = kani::any();
	kani::assume(len <= 6);
	let s = &data[..len];
	let mut d = spec::Dec::new(s);
	let want = match d.len_prefixed() {
		Some(w) if spec::utf8_valid(w) => Some(w),
		_ => None,
	};
	let (r, used) = de_slice::<BStr>(&nodes::STRING, s);
	kani::cover!(want.map_or(false, |w| w.len() == 5));
	match (&r, want) {
		(Ok(v), Some(w)) => assert!(used == d.pos && v.0.len() == w.len() && v.0.as_ptr() == w.as_ptr(), "c03_diff_string: differs from the reference decoder"),
		(Ok(_), None) => assert!(false, "c03_diff_string: invalid encoding produced a value"),
		(Err(_), Some(_)) => assert!(d.noncanon, "c03_diff_string: valid encoding rejected"),
		(Err(_), None) => {}
	}
	std::mem::forget(r);
	kani::cover!(true, "end of harness reached");
}

// @harness props=C03 also=C01 tier=quick timeout=600
// @bound fixed(3): all contents and every shorter input (-> Err)
#[kani::proof]
#[kani::unwind(8)]
#[kani::stub(alloc::fmt::format, crate::verif::stub_format)]
fn c03_dec_fixed() {
	crate::verif::stack_node!(f3 = nodes::fixed_node(3));
	let content: [u8; 3] = kani::any();
	let len: usize = kani::any();
	kani::assume(len <= 3);
	let (r, used) = de_slice::<BBytes>(f3, &content[..len]);
	kani::cover!(len == 2);
	match &r {
		Ok(b) => assert!(len == 3 && used == 3 && b.0.len() == 3 && b.0[0] == content[0] && b.0[2] == content[2], "c03_dec_fixed: wrong content"),
		Err(_) => assert!(len < 3, "c03_dec_fixed: valid encoding rejected"),
	}
	std::mem::forget(r);
	kani::cover!(true, "end of harness reached");
}

// @harness props=C03 also=C01 tier=quick timeout=600
// @bound duration: all 3 x u32 as (u32,u32,u32), and every input shorter than 12 bytes (-> Err)
#[kani::proof]
#[kani::unwind(14)]
#[kani::stub(alloc::fmt::format, crate::verif::stub_format)]
fn c03_dec_duration_tuple() {
	let (m, d, ms): (u32, u32, u32) = (kani::any(), kani::any(), kani::any());
	let mut e = Enc::<12>::new();
	e.u32_le(m);
	e.u32_le(d);
	e.u32_le(ms);
	let len: usize = kani::any();
	kani::assume(len <= 12);
	let (r, used) = de_slice::<DurTuple>(&nodes::DURATION, &e.buf[..len]);
	match &r {
		Ok(t) => assert!(len == 12 && used == 12 && t.0 == m && t.1 == d && t.2 == ms, "c03_dec_duration: tuple differs"),
		Err(_) => assert!(len < 12, "c03_dec_duration: tuple rejected"),
	}
	std::mem::forget(r);
	kani::cover!(true, "end of harness reached");
}

// @harness props=C03,C01 tier=quick timeout=600
// @bound duration: all 3 x u32 as struct {months, days, milliseconds} and as 12 raw borrowed bytes
#[kani::proof]
#[kani::unwind(14)]
#[kani::stub(alloc::fmt::format, crate::verif::stub_format)]
fn c03_dec_duration_struct_bytes() {
	let (m, d, ms): (u32, u32, u32) = (kani::any(), kani::any(), kani::any());
	let mut e = Enc::<12>::new();
	e.u32_le(m);
	e.u32_le(d);
	e.u32_le(ms);
	let (r, used) = de_slice::<Dur>(&nodes::DURATION, e.bytes());
	match &r {
		Ok(t) => assert!(used == 12 && t.months == m && t.days == d && t.milliseconds == ms, "c03_dec_duration: struct differs"),
		Err(_) => assert!(false, "c03_dec_duration: struct rejected"),
	}
	std::mem::forget(r);
	let (r, used) = de_slice::<BBytes>(&nodes::DURATION, e.bytes());
	match &r {
		Ok(b) => assert!(used == 12 && b.0.len() == 12 && b.0[0] == m as u8 && b.0[11] == (ms >> 24) as u8, "c03_dec_duration: raw bytes differ"),
		Err(_) => assert!(false, "c03_dec_duration: raw bytes rejected"),
	}
	std::mem::forget(r);
	kani::cover!(true, "end of harness reached");
}

// @harness props=C03,C04 also=C01 tier=quick timeout=900
// @bound decimal(bytes, scale 0): every byte string of length 0..=6 against the reference (payload <= 5 bytes), i128 hint
#[kani::proof]
#[kani::unwind(19)]
#[kani::stub(alloc::fmt::format, crate::verif::stub_format)]
fn c03_diff_decimal_bytes() {
	crate::verif::stack_node!(dn = nodes::dec_bytes(0));
	let data: [u8; 6] = kani::any();
	let len: usize = kani::any();
	kani::assume(len <= 6);
	let s = &data[..len];
	let mut d = spec::Dec::new(s);
	let want = d.len_prefixed().map(spec::twos_complement);
	let (r, used) = de_slice::<I128Hint>(dn, s);
	kani::cover!(want.map_or(false, |w| w < -1000));
	match (&r, want) {
		(Ok(v), Some(w)) => assert!(v.0 == w && used == d.pos, "c03_diff_decimal: differs from the reference decoder"),
		(Ok(_), None) => assert!(false, "c03_diff_decimal: invalid encoding produced a value"),
		(Err(_), Some(_)) => assert!(d.noncanon, "c03_diff_decimal: valid decimal rejected"),
		(Err(_), None) => {}
	}
	std::mem::forget(r);
	kani::cover!(true, "end of harness reached");
}

// @harness props=C03 also=C01 tier=thorough timeout=1800
// @bound decimal(bytes, scale 0): payload length 0..=16, all contents, i128 hint == sign-extended two's complement; length 17 -> Err
#[kani::proof]
#[kani::unwind(20)]
#[kani::stub(alloc::fmt::format, crate::verif::stub_format)]
fn c03_dec_decimal_bytes_16() {
	crate::verif::stack_node!(dn = nodes::dec_bytes(0));
	let content: [u8; 18] = kani::any();
	let n: usize = kani::any();
	kani::assume(n <= 17);
	let mut data = [0u8; 18];
	data[0] = (n as u8) << 1;
	let mut i = 0;
	while i < 17 {
		data[1 + i] = content[i];
		i += 1;
	}
	let (r, used) = de_slice::<I128Hint>(dn, &data[..1 + n]);
	kani::cover!(n == 16 && content[0] >= 0x80);
	match &r {
		Ok(x) => assert!(n <= 16 && used == 1 + n && x.0 == spec::twos_complement(&content[..n]), "c03_dec_decimal_bytes: wrong number"),
		Err(_) => assert!(n == 17, "c03_dec_decimal_bytes: valid decimal rejected"),
	}
	std::mem::forget(r);
	kani::cover!(true, "end of harness reached");
}

fn dec_fixed_case(n: usize, node: &'static SchemaNode<'static>) {
	let content: [u8; 17] = kani::any();
	let (r, used) = de_slice::<I128Hint>(node, &content[..n]);
	match &r {
		Ok(x) => assert!(n <= 16 && used == n && x.0 == spec::twos_complement(&content[..n]), "c03_dec_decimal_fixed: wrong number"),
		Err(_) => assert!(n == 17, "c03_dec_decimal_fixed: valid decimal rejected"),
	}
	std::mem::forget(r);
}

// @harness props=C03,C01 tier=quick timeout=900
// @bound decimal(fixed n, scale 0) for n in {0,1,2}: all contents, i128 hint
#[kani::proof]
#[kani::unwind(20)]
#[kani::stub(alloc::fmt::format, crate::verif::stub_format)]
fn c03_dec_decimal_fixed_small() {
	crate::verif::stack_node!(d0 = nodes::dec_fixed(0, 0));
	crate::verif::stack_node!(d1 = nodes::dec_fixed(1, 0));
	crate::verif::stack_node!(d2 = nodes::dec_fixed(2, 0));
	dec_fixed_case(0, d0);
	dec_fixed_case(1, d1);
	dec_fixed_case(2, d2);
	kani::cover!(true, "end of harness reached");
}

// @harness props=C03 also=C01 tier=quick timeout=900
// @bound decimal(fixed 16): all contents; decimal(fixed 17) -> Err (documented 16-byte limit), never a value
#[kani::proof]
#[kani::unwind(20)]
#[kani::stub(alloc::fmt::format, crate::verif::stub_format)]
fn c03_dec_decimal_fixed_16_17() {
	crate::verif::stack_node!(d16 = nodes::dec_fixed(16, 0));
	crate::verif::stack_node!(d17 = nodes::dec_fixed(17, 0));
	dec_fixed_case(16, d16);
	dec_fixed_case(17, d17);
	kani::cover!(true, "end of harness reached");
}

// @harness props=C03 also=C01 tier=off timeout=2400
// (tier=off: a loop of the Take/VarIntReader path exceeds unwind 12 and higher bounds gave no verdict in 40 min)
// @bound big-decimal framing: inner payload 0..=3 bytes, scale 0, outer length exact -> value; outer length off by one -> Err
#[kani::proof]
#[kani::unwind(12)]
#[kani::stub(alloc::fmt::format, crate::verif::stub_format)]
#[kani::stub(rust_decimal::Decimal::try_from_i128_with_scale, crate::verif::stub_no_rust_decimal)]
fn c03_dec_bigdecimal() {
	let content: [u8; 3] = kani::any();
	let n: usize = kani::any();
	kani::assume(n <= 3);
	let delta: i8 = kani::any();
	kani::assume(delta >= -1 && delta <= 1);
	// inner = varint(n) payload varint(scale=0); all varints here are single bytes
	let inner_len = (1 + n + 1) as i64 + delta as i64;
	let mut data = [0u8; 8];
	data[0] = (inner_len as u8) << 1;
	data[1] = (n as u8) << 1;
	data[2] = content[0];
	data[3] = content[1];
	data[4] = content[2];
	data[2 + n] = 0; // scale
	let total = 2 + n + 1;
	let (r, used) = de_slice::<I128Hint>(&nodes::BIG_DECIMAL, &data[..total]);
	kani::cover!(delta == 0 && n == 3);
	kani::cover!(delta == 1);
	match &r {
		Ok(x) => {
			assert!(delta == 0, "c03_dec_bigdecimal: inconsistent outer length accepted");
			assert!(used == total && x.0 == spec::twos_complement(&content[..n]), "c03_dec_bigdecimal: wrong number");
		}
		Err(_) => assert!(delta != 0, "c03_dec_bigdecimal: valid big-decimal rejected"),
	}
	std::mem::forget(r);
	kani::cover!(true, "end of harness reached");
}

// @harness props=C03,C01 tier=quick timeout=900
// @bound enum {a,b,cc}: every i64 index: 0..3 decodes to its symbol; every other index -> Err
#[kani::proof]
#[kani::unwind(12)]
#[kani::stub(alloc::fmt::format, crate::verif::stub_format)]
fn c03_dec_enum() {
	crate::verif::enum_node!(en = "ns.e3", Some(2); ["a", "b", "cc"]);
	let idx: i64 = kani::any();
	let mut e = Enc::<10>::new();
	e.long(idx);
	let (r, used) = de_slice::<OStr<2>>(en, e.bytes());
	kani::cover!(idx == 2);
	kani::cover!(idx == -1);
	match &r {
		Ok(s) => {
			assert!(idx >= 0 && idx < 3 && used == e.len, "c03_dec_enum: index outside the schema accepted");
			let want: &[u8] = match idx {
				0 => b"a",
				1 => b"b",
				_ => b"cc",
			};
			assert!(s.0.len == want.len() && s.0.buf[0] == want[0], "c03_dec_enum: wrong symbol");
		}
		Err(_) => assert!(idx < 0 || idx >= 3, "c03_dec_enum: valid enum index rejected"),
	}
	std::mem::forget(r);
	kani::cover!(true, "end of harness reached");
}

/// reference decode of array<long> into at most 3 items; None = invalid; `over` = more than 3 items.
/// Single loop over tokens (every token is a varint of >= 1 byte, so at most len+1 iterations).
fn ref_array_long(d: &mut spec::Dec, out: &mut [i64; 3], n: &mut usize, over: &mut bool) -> Option<()> {
	let mut left: u64 = 0; // items left in the current block
	let mut size: Option<u64> = None;
	let mut start = 0;
	let mut tokens = 0;
	loop {
		if tokens > d.data.len() {
			return None;
		}
		tokens += 1;
		if left == 0 {
			if let Some(sz) = size {
				if sz != (d.pos - start) as u64 {
					d.noncanon = true;
				}
			}
			size = None;
			let c = d.block_count(&mut size)?;
			if c == 0 {
				return Some(());
			}
			left = c;
			start = d.pos;
		} else {
			let v = d.long()?;
			if *n < 3 {
				out[*n] = v;
				*n += 1;
			} else {
				*over = true;
			}
			left -= 1;
		}
	}
}

// @harness props=C03,C04 also=C01 tier=quick timeout=1800
// @bound array<long>: every byte string of length 0..=6 (covers every block split, negative counts with byte sizes, truncations, hostile counts); arrays of more than 3 items are outside
#[kani::proof]
#[kani::unwind(10)]
#[kani::stub(alloc::fmt::format, crate::verif::stub_format)]
fn c03_diff_array_long() {
	crate::verif::stack_node!(arr = nodes::array_of(&nodes::LONG));
	let data: [u8; 6] = kani::any();
	let len: usize = kani::any();
	kani::assume(len <= 6);
	let s = &data[..len];
	let mut d = spec::Dec::new(s);
	let mut want = [0i64; 3];
	let mut n = 0;
	let mut over = false;
	let ok = ref_array_long(&mut d, &mut want, &mut n, &mut over);
	kani::assume(!over);
	let (r, used) = de_slice::<Seq<i64, 3>>(arr, s);
	kani::cover!(ok.is_some() && n == 3);
	kani::cover!(ok.is_some() && n == 2 && data[0] == 1 && data[1] == 2);
	match (&r, ok) {
		(Ok(v), Some(())) => {
			assert!(v.len == n && used == d.pos, "c03_diff_array: count/length differs from the reference decoder");
			let mut i = 0;
			while i < n {
				assert!(v.items[i] == want[i], "c03_diff_array: element differs from the reference decoder");
				i += 1;
			}
		}
		(Ok(_), None) => assert!(false, "c03_diff_array: invalid encoding produced a value"),
		(Err(_), Some(())) => assert!(d.noncanon, "c03_diff_array: valid encoding rejected"),
		(Err(_), None) => {}
	}
	std::mem::forget(r);
	kani::cover!(true, "end of harness reached");
}

// Unions. A full decode through a union makes the branch node pointer depend on the input and CBMC then
// unfolds every schema arm recursively (measured: no verdict even on fully concrete input). The union
// logic is therefore decided on its own: the branch-selection function of the real code against the
// reference decoder on every byte string; decoding of the selected branch is the per-kind harnesses,
// and the glue between the two is the single expression `Self { schema_node: selected, .. }`.

fn union_discriminant_case<const K: usize>(u: &'static SchemaNode<'static>, vars: [&'static SchemaNode<'static>; K]) {
	let data: [u8; 11] = kani::any();
	let len: usize = kani::any();
	kani::assume(len <= 11);
	let s = &data[..len];
	let mut d = spec::Dec::new(s);
	let want = d.long();
	let mut st = DeserializerState::from_schema_node(SliceRead::new(s), nodes::nref(u));
	let un = match u {
		SchemaNode::Union(un) => un,
		_ => unreachable!(),
	};
	let r = read_union_discriminant(&mut st, un);
	let left = std::io::BufRead::fill_buf(&mut st.reader).map(|b| b.len()).unwrap_or(0);
	let used = len - left;
	kani::cover!(r.is_ok() && want == Some(K as i64 - 1));
	kani::cover!(r.is_err() && want == Some(K as i64));
	kani::cover!(r.is_err() && want == Some(-1));
	match (&r, want) {
		(Ok(p), Some(i)) => {
			assert!(i >= 0 && (i as usize) < K, "c03_union: branch index outside the union accepted");
			assert!(std::ptr::eq(*p, vars[i as usize]) && used == d.pos, "c03_union: wrong branch selected");
		}
		(Ok(_), None) => assert!(false, "c03_union: invalid index encoding produced a branch"),
		(Err(_), Some(i)) => assert!(d.noncanon || i < 0 || i as usize >= K, "c03_union: valid branch index rejected"),
		(Err(_), None) => {}
	}
	std::mem::forget(r);
}

// @harness props=C03,C04,C01 tier=quick timeout=1200
// @bound union branch selection, 2- and 3-branch unions: every byte string of length 0..=11 (all i64 indexes, truncations): selected node == variants[index] iff 0 <= index < n, else Err
#[kani::proof]
#[kani::unwind(13)]
#[kani::stub(alloc::fmt::format, crate::verif::stub_format)]
fn c03_union_discriminant() {
	crate::verif::union_node_de!(u2 = [&nodes::NULL, &nodes::LONG]);
	union_discriminant_case::<2>(u2, [&nodes::NULL, &nodes::LONG]);
	crate::verif::union_node_de!(u3 = [&nodes::STRING, &nodes::NULL, &nodes::DOUBLE]);
	union_discriminant_case::<3>(u3, [&nodes::STRING, &nodes::NULL, &nodes::DOUBLE]);
	kani::cover!(true, "end of harness reached");
}

// =============================================================================================
// C04: resource limits

/// reference decode of array<null>: total item count (saturating), None = invalid encoding
fn ref_array_null(d: &mut spec::Dec) -> Option<u64> {
	let mut total: u64 = 0;
	let mut blocks = 0;
	loop {
		if blocks > d.data.len() {
			return None;
		}
		blocks += 1;
		let mut size = None;
		let c = d.block_count(&mut size)?;
		if c == 0 {
			return Some(total);
		}
		if let Some(sz) = size {
			if sz != 0 {
				d.noncanon = true;
			}
		}
		total = total.saturating_add(c);
	}
}

// @harness props=C04,C03 tier=quick timeout=1200
// @bound array<null> (zero-byte items: the count is the only bound): every byte string of length 0..=4, max_seq_size symbolic 0..=3, against the reference decoder: valid and within the limit => Ok with that many items; more items than max_seq_size (also when split over several blocks) => Err; the work done must not follow the number written in the input (unwind 7 would be exceeded otherwise)
#[kani::proof]
#[kani::unwind(7)]
#[kani::stub(alloc::fmt::format, crate::verif::stub_format)]
fn c04_array_null_max_seq_size() {
	crate::verif::stack_node!(arr = nodes::array_of(&nodes::NULL));
	let data: [u8; 4] = kani::any();
	let len: usize = kani::any();
	kani::assume(len <= 4);
	let max: usize = kani::any();
	kani::assume(max <= 3);
	let s = &data[..len];
	let mut d = spec::Dec::new(s);
	let want = ref_array_null(&mut d);
	let (r, used) = de_slice_cfg::<Seq<(), 4>>(arr, s, max, 64);
	kani::cover!(r.is_ok() && max == 3);
	kani::cover!(r.is_err() && len == 4 && data[0] == 0xfe);
	kani::cover!(r.is_ok() && data[0] == 1 && data[1] == 0);
	match (&r, want) {
		(Ok(v), Some(n)) => {
			assert!(v.len <= max, "c04: sequence longer than max_seq_size was produced");
			assert!(v.len as u64 == n && used == d.pos, "c04: item count/length differs from the reference decoder");
		}
		(Ok(_), None) => assert!(false, "c04: invalid array encoding produced a value"),
		(Err(_), Some(n)) => assert!(d.noncanon || n > max as u64, "c04: valid array within max_seq_size rejected"),
		(Err(_), None) => {}
	}
	std::mem::forget(r);
	kani::cover!(true, "end of harness reached");
}

fn depth_case(p: &'static SchemaNode<'static>, depth: usize, allowed: usize) {
	// depth nested one-element arrays, innermost empty: 02 * depth, then 00 * (depth + 1)
	let mut data = [0u8; 9];
	let mut i = 0;
	while i < depth {
		data[i] = 2;
		i += 1;
	}
	let total = 2 * depth + 1;
	let (r, used) = de_slice_cfg::<IgnoredAny>(p, &data[..total], 1000, allowed);
	// entering the outermost array already costs one level
	if depth + 1 > allowed {
		assert!(r.is_err(), "c04: nesting deeper than allowed_depth was accepted");
	} else {
		assert!(r.is_ok() && used == total, "c04: nesting within allowed_depth was rejected");
	}
	std::mem::forget(r);
}

// @harness props=C04 tier=quick timeout=1200
// @bound depth limit on a self-referential array (items = itself): the 16 combinations allowed_depth 0..=3 x nesting depth 0..=3 (concrete inputs 02..02 00..00; a symbolic limit makes the reader position symbolic after the first merge and gave no verdict): deeper than the limit -> Err, within -> Ok, all under CBMC's memory/overflow checks
#[kani::proof]
#[kani::unwind(7)]
#[kani::stub(alloc::fmt::format, crate::verif::stub_format)]
fn c04_depth_limit() {
	let mut slot = std::mem::ManuallyDrop::new(SchemaNode::Null);
	let p: &'static SchemaNode<'static> = unsafe { std::mem::transmute(&*slot) };
	// SAFETY (verification only): make the node point at itself
	unsafe { std::ptr::write(&mut *slot as *mut SchemaNode<'_> as *mut SchemaNode<'static>, nodes::array_of(p)) };
	let mut allowed = 0;
	while allowed <= 3 {
		depth_case(p, 0, allowed);
		depth_case(p, 1, allowed);
		depth_case(p, 2, allowed);
		depth_case(p, 3, allowed);
		allowed += 1;
	}
	kani::cover!(true, "end of harness reached");
}

// @harness props=C04,C11 tier=quick timeout=1200
// @bound reader input, bytes node: every byte string 0..=6, every refill size 1..=6, max_alloc_size symbolic 0..=4: a field larger than max_alloc_size that is not already buffered -> Err; the scratch buffer never grows beyond max_alloc_size
#[kani::proof]
#[kani::unwind(9)]
#[kani::stub(alloc::fmt::format, crate::verif::stub_format)]
fn c04_reader_max_alloc() {
	let data: [u8; 6] = kani::any();
	let len: usize = kani::any();
	kani::assume(len <= 6);
	let chunk: usize = kani::any();
	kani::assume(chunk >= 1 && chunk <= 6);
	let max_alloc: usize = kani::any();
	kani::assume(max_alloc <= 4);
	let s = &data[..len];
	let mut cfg = DeserializerConfig::from_schema_node(nodes::nref(&nodes::BYTES));
	cfg.max_seq_size = 10;
	let mut rr = ReaderRead::new(Chunked::new(s, chunk));
	rr.max_alloc_size = max_alloc;
	let mut st = DeserializerState::with_config(rr, cfg);
	let r = <OBytes<6> as serde::Deserialize>::deserialize(st.deserializer());
	let scratch = crate::de::read::verif::scratch_len(&st.reader);
	let mut d = spec::Dec::new(s);
	let want = d.len_prefixed();
	kani::cover!(r.is_ok() && scratch > 0);
	kani::cover!(r.is_err() && want.is_some());
	assert!(scratch <= max_alloc, "c04: scratch buffer grew beyond max_alloc_size");
	match (&r, want) {
		(Ok(v), Some(w)) => {
			assert!(v.len == w.len(), "c04_reader: wrong length");
			// larger than the cap is only acceptable when it was served from the BufRead buffer itself
			assert!(w.len() <= max_alloc || w.len() <= chunk, "c04_reader: field above max_alloc_size was allocated");
		}
		(Ok(_), None) => assert!(false, "c04_reader: invalid encoding produced a value"),
		(Err(_), Some(w)) => assert!(d.noncanon || w.len() > max_alloc, "c04_reader: valid field within max_alloc_size rejected"),
		(Err(_), None) => {}
	}
	std::mem::forget(r);
	std::mem::forget(st);
	kani::cover!(true, "end of harness reached");
}

// =============================================================================================
// C11 whole-datum: slice input vs reader input under every uniform refill size

fn sv_scalar<'a, T: serde::de::DeserializeOwned + PartialEq>(node: &'static SchemaNode<'static>, s: &'a [u8], chunk: usize) {
	let (a, a_used) = de_slice::<T>(node, s);
	// max_alloc_size 8 (>= every field that fits the <= 13-byte inputs): the scratch buffer is resized to the
	// declared length before the bytes are known to exist, so the cap is what bounds that loop
	let (b, b_used) = de_reader_cfg::<T>(node, s, chunk, 1_000, 64, 8);
	match (&a, &b) {
		(Ok(x), Ok(y)) => assert!(*x == *y && a_used == b_used, "c11_sv: slice and reader differ in value or consumed length"),
		(Err(_), Err(_)) => {}
		(Ok(_), Err(_)) => assert!(false, "c11_sv: slice Ok but reader Err"),
		(Err(_), Ok(_)) => assert!(false, "c11_sv: slice Err but reader Ok"),
	}
	std::mem::forget(a);
	std::mem::forget(b);
}

// @harness props=C11 tier=quick timeout=1200
// @bound whole datum, long and int nodes: every byte string 0..=11 x refill size 1..=11
#[kani::proof]
#[kani::unwind(13)]
#[kani::stub(alloc::fmt::format, crate::verif::stub_format)]
fn c11_sv_long_int() {
	let data: [u8; 11] = kani::any();
	let len: usize = kani::any();
	kani::assume(len <= 11);
	let chunk: usize = kani::any();
	kani::assume(chunk >= 1 && chunk <= 11);
	sv_scalar::<i64>(&nodes::LONG, &data[..len], chunk);
	sv_scalar::<i32>(&nodes::INT, &data[..len], chunk);
	kani::cover!(true, "end of harness reached");
}

// @harness props=C11 tier=thorough timeout=3600
// @bound whole datum, double / duration(tuple) / boolean: every byte string 0..=13 x refill size 1..=13
#[kani::proof]
#[kani::unwind(15)]
#[kani::stub(alloc::fmt::format, crate::verif::stub_format)]
fn c11_sv_fixed_width() {
	let data: [u8; 13] = kani::any();
	let len: usize = kani::any();
	kani::assume(len <= 13);
	let chunk: usize = kani::any();
	kani::assume(chunk >= 1 && chunk <= 13);
	let s = &data[..len];
	let (a, a_used) = de_slice::<f64>(&nodes::DOUBLE, s);
	let (b, b_used) = de_reader_cfg::<f64>(&nodes::DOUBLE, s, chunk, 1000, 64, 8);
	match (&a, &b) {
		(Ok(x), Ok(y)) => assert!(x.to_bits() == y.to_bits() && a_used == b_used, "c11_sv_double: differ"),
		(Err(_), Err(_)) => {}
		_ => assert!(false, "c11_sv_double: one path Ok the other Err"),
	}
	std::mem::forget(a);
	std::mem::forget(b);
	sv_scalar::<DurTuple>(&nodes::DURATION, s, chunk);
	sv_scalar::<bool>(&nodes::BOOLEAN, s, chunk);
	kani::cover!(true, "end of harness reached");
}

impl<const N: usize> PartialEq for OBytes<N> {
	fn eq(&self, o: &Self) -> bool {
		if self.len != o.len {
			return false;
		}
		let mut i = 0;
		while i < self.len {
			if self.buf[i] != o.buf[i] {
				return false;
			}
			i += 1;
		}
		true
	}
}
impl<const N: usize> PartialEq for OStr<N> {
	fn eq(&self, o: &Self) -> bool {
		self.0 == o.0
	}
}
impl<T: PartialEq, const N: usize> PartialEq for Seq<T, N> {
	fn eq(&self, o: &Self) -> bool {
		if self.len != o.len {
			return false;
		}
		let mut i = 0;
		while i < self.len {
			if self.items[i] != o.items[i] {
				return false;
			}
			i += 1;
		}
		true
	}
}

// @harness props=C11 tier=thorough timeout=3600
// @bound whole datum, bytes and string (UTF-8 verdict from the reference validator): every byte string 0..=6 x refill size 1..=6 (in-buffer visit vs scratch copy vs slice borrow)
#[kani::proof]
#[kani::unwind(11)]
#[kani::stub(alloc::fmt::format, crate::verif::stub_format)]
#[kani::stub(std::str::from_utf8, crate::verif::stub_from_utf8)]
fn c11_sv_bytes_string() {
	let data: [u8; 6] = kani::any();
	let len: usize = kani::any();
	kani::assume(len <= 6);
	let chunk: usize = kani::any();
	kani::assume(chunk >= 1 && chunk <= 6);
	sv_scalar::<OBytes<6>>(&nodes::BYTES, &data[..len], chunk);
	sv_scalar::<OStr<6>>(&nodes::STRING, &data[..len], chunk);
	kani::cover!(true, "end of harness reached");
}

// (tier=off: 20 GB memory limit hit after 2054 s)
// @harness props=C11 tier=off timeout=3600
// @bound whole datum, array<long> into <=3 items: every byte string 0..=5 x refill size 1..=5
#[kani::proof]
#[kani::unwind(9)]
#[kani::stub(alloc::fmt::format, crate::verif::stub_format)]
fn c11_sv_array_long() {
	crate::verif::stack_node!(arr = nodes::array_of(&nodes::LONG));
	let data: [u8; 5] = kani::any();
	let len: usize = kani::any();
	kani::assume(len <= 5);
	let chunk: usize = kani::any();
	kani::assume(chunk >= 1 && chunk <= 5);
	sv_scalar::<Seq<i64, 5>>(arr, &data[..len], chunk);
	kani::cover!(true, "end of harness reached");
}

// @harness props=C11 tier=thorough timeout=3600
// @bound whole datum, decimal(bytes) with the i128 hint and fixed(3): every byte string 0..=6 x refill size 1..=6
#[kani::proof]
#[kani::unwind(19)]
#[kani::stub(alloc::fmt::format, crate::verif::stub_format)]
fn c11_sv_decimal_fixed() {
	crate::verif::stack_node!(dn = nodes::dec_bytes(0));
	crate::verif::stack_node!(f3 = nodes::fixed_node(3));
	let data: [u8; 6] = kani::any();
	let len: usize = kani::any();
	kani::assume(len <= 6);
	let chunk: usize = kani::any();
	kani::assume(chunk >= 1 && chunk <= 6);
	sv_scalar::<I128Hint>(dn, &data[..len], chunk);
	sv_scalar::<OBytes<3>>(f3, &data[..len], chunk);
	kani::cover!(true, "end of harness reached");
}

// =============================================================================================
// C12: skipping (IgnoredAny) consumes exactly what reading consumes, on every canonical encoding

fn skip_vs_read<'a, T: serde::Deserialize<'a>>(node: &'static SchemaNode<'static>, s: &'a [u8], canonical: bool) {
	let (a, a_used) = de_slice::<T>(node, s);
	let (b, b_used) = de_slice::<IgnoredAny>(node, s);
	if a.is_ok() && canonical {
		assert!(b.is_ok(), "c12: value that reads fine cannot be skipped");
		assert!(a_used == b_used, "c12: skipping consumed a different number of bytes than reading");
	}
	std::mem::forget(a);
	std::mem::forget(b);
}

// @harness props=C12 tier=quick timeout=1200
// @bound long, int, enum{a,b,cc} (skipped without zig-zag decoding): every byte string 0..=11
#[kani::proof]
#[kani::unwind(13)]
#[kani::stub(alloc::fmt::format, crate::verif::stub_format)]
fn c12_skip_varints() {
	crate::verif::enum_node!(en = "e", None; ["a", "b", "cc"]);
	let data: [u8; 11] = kani::any();
	let len: usize = kani::any();
	kani::assume(len <= 11);
	let s = &data[..len];
	let mut d = spec::Dec::new(s);
	let _ = d.int();
	let canonical32 = !d.noncanon;
	skip_vs_read::<i64>(&nodes::LONG, s, true);
	// an int varint longer than 5 bytes is not something a writer emits (and the u32 skip path may refuse it)
	skip_vs_read::<i32>(&nodes::INT, s, canonical32);
	skip_vs_read::<OStr<2>>(en, s, true);
	kani::cover!(true, "end of harness reached");
}

// @harness props=C12 tier=quick timeout=1200
// @bound logical types over int/long (date, time-millis, time-micros, timestamp-millis, timestamp-micros): every byte string 0..=11 (values needing more than 32 bits for the int-based ones are outside)
#[kani::proof]
#[kani::unwind(13)]
#[kani::stub(alloc::fmt::format, crate::verif::stub_format)]
fn c12_skip_logical() {
	let data: [u8; 11] = kani::any();
	let len: usize = kani::any();
	kani::assume(len <= 11);
	let s = &data[..len];
	let mut d = spec::Dec::new(s);
	let _ = d.int();
	let canonical32 = !d.noncanon;
	skip_vs_read::<i32>(&nodes::DATE, s, canonical32);
	skip_vs_read::<i32>(&nodes::TIME_MILLIS, s, canonical32);
	skip_vs_read::<i64>(&nodes::TIME_MICROS, s, true);
	skip_vs_read::<i64>(&nodes::TS_MILLIS, s, true);
	skip_vs_read::<i64>(&nodes::TS_MICROS, s, true);
	kani::cover!(true, "end of harness reached");
}

// (ignored decimals: no harness. An ignored decimal is still converted to text by rust_decimal after its bytes
// have been consumed; with that conversion real: > 30 min / 20 GB, with its entry point stubbed to fail: CBMC does
// not fold the niche-encoded Result and explores the conversion anyway. Seeded change C12_m1 is missed for that reason.)

// @harness props=C12 tier=quick timeout=1200
// @bound bytes and string (skipped without UTF-8 validation): every byte string 0..=6
#[kani::proof]
#[kani::unwind(9)]
#[kani::stub(alloc::fmt::format, crate::verif::stub_format)]
#[kani::stub(std::str::from_utf8, crate::verif::stub_from_utf8)]
fn c12_skip_bytes_string() {
	let data: [u8; 6] = kani::any();
	let len: usize = kani::any();
	kani::assume(len <= 6);
	let s = &data[..len];
	skip_vs_read::<BBytes>(&nodes::BYTES, s, true);
	skip_vs_read::<BStr>(&nodes::STRING, s, true);
	kani::cover!(true, "end of harness reached");
}

// @harness props=C12 tier=quick timeout=1200
// @bound fixed(3), duration, double, boolean: every byte string 0..=13
#[kani::proof]
#[kani::unwind(15)]
#[kani::stub(alloc::fmt::format, crate::verif::stub_format)]
fn c12_skip_fixed_width() {
	crate::verif::stack_node!(f3 = nodes::fixed_node(3));
	let data: [u8; 13] = kani::any();
	let len: usize = kani::any();
	kani::assume(len <= 13);
	let s = &data[..len];
	skip_vs_read::<BBytes>(f3, s, true);
	skip_vs_read::<DurTuple>(&nodes::DURATION, s, true);
	skip_vs_read::<f64>(&nodes::DOUBLE, s, true);
	skip_vs_read::<bool>(&nodes::BOOLEAN, s, true);
	kani::cover!(true, "end of harness reached");
}

fn skip_array_case(arr: &'static SchemaNode<'static>, s: &[u8]) {
	let (a, a_used) = de_slice::<Seq<i64, 3>>(arr, s);
	let (b, b_used) = de_slice::<IgnoredAny>(arr, s);
	assert!(a.is_ok() && a_used == s.len(), "c12: reference-shaped array encoding does not read");
	assert!(b.is_ok(), "c12: valid array cannot be skipped");
	assert!(b_used == a_used, "c12: skipping an array consumed a different number of bytes than reading it");
	std::mem::forget(a);
	std::mem::forget(b);
}

// @harness props=C12 tier=thorough timeout=3600
// @bound array<long>, block layout [2 items][v0][v1][end] with symbolic element bytes: IgnoredAny (jumps over negative-count blocks by byte size, continues with following blocks) consumes exactly what the typed read consumes. (Symbolic layouts under IgnoredAny gave no verdict in 400 s.)
#[kani::proof]
#[kani::unwind(8)]
#[kani::stub(alloc::fmt::format, crate::verif::stub_format)]
fn c12_skip_array_pos() {
	crate::verif::stack_node!(arr = nodes::array_of(&nodes::LONG));
	let v: [u8; 3] = kani::any();
	kani::assume(v[0] < 0x80 && v[1] < 0x80 && v[2] < 0x80);
	let w: u8 = kani::any();
	kani::assume(w >= 0x80);
	skip_array_case(arr, &[4, v[0], v[1], 0]);
	kani::cover!(true, "end of harness reached");
}

// @harness props=C12 tier=quick timeout=1800
// @bound array<long>, block layout [-2 items, 2 bytes][v0][v1][end] with symbolic element bytes: IgnoredAny (jumps over negative-count blocks by byte size, continues with following blocks) consumes exactly what the typed read consumes. (Symbolic layouts under IgnoredAny gave no verdict in 400 s.)
#[kani::proof]
#[kani::unwind(8)]
#[kani::stub(alloc::fmt::format, crate::verif::stub_format)]
fn c12_skip_array_neg() {
	crate::verif::stack_node!(arr = nodes::array_of(&nodes::LONG));
	let v: [u8; 3] = kani::any();
	kani::assume(v[0] < 0x80 && v[1] < 0x80 && v[2] < 0x80);
	let w: u8 = kani::any();
	kani::assume(w >= 0x80);
	skip_array_case(arr, &[3, 4, v[0], v[1], 0]);
	kani::cover!(true, "end of harness reached");
}

// (tier=off: 20 GB memory limit hit after 1555 s)
// @harness props=C12 tier=off timeout=3600
// @bound array<long>, block layout [-1 item, 2 bytes][w v0: two-byte varint][1 item][v1][end] with symbolic element bytes: IgnoredAny (jumps over negative-count blocks by byte size, continues with following blocks) consumes exactly what the typed read consumes. (Symbolic layouts under IgnoredAny gave no verdict in 400 s.)
#[kani::proof]
#[kani::unwind(8)]
#[kani::stub(alloc::fmt::format, crate::verif::stub_format)]
fn c12_skip_array_neg_pos() {
	crate::verif::stack_node!(arr = nodes::array_of(&nodes::LONG));
	let v: [u8; 3] = kani::any();
	kani::assume(v[0] < 0x80 && v[1] < 0x80 && v[2] < 0x80);
	let w: u8 = kani::any();
	kani::assume(w >= 0x80);
	skip_array_case(arr, &[1, 4, w, v[0], 2, v[1], 0]);
	kani::cover!(true, "end of harness reached");
}

// @harness props=C12 tier=quick timeout=1800
// @bound array<long>, block layout [-1, 1 byte][v0][-2, 2 bytes][v1][v2][end] with symbolic element bytes: IgnoredAny (jumps over negative-count blocks by byte size, continues with following blocks) consumes exactly what the typed read consumes. (Symbolic layouts under IgnoredAny gave no verdict in 400 s.)
#[kani::proof]
#[kani::unwind(8)]
#[kani::stub(alloc::fmt::format, crate::verif::stub_format)]
fn c12_skip_array_neg_neg() {
	crate::verif::stack_node!(arr = nodes::array_of(&nodes::LONG));
	let v: [u8; 3] = kani::any();
	kani::assume(v[0] < 0x80 && v[1] < 0x80 && v[2] < 0x80);
	let w: u8 = kani::any();
	kani::assume(w >= 0x80);
	skip_array_case(arr, &[1, 2, v[0], 3, 4, v[1], v[2], 0]);
	kani::cover!(true, "end of harness reached");
}


// =============================================================================================
// C02 / C01: union branch names. The name the DEserializer offers for a branch (what a Rust enum
// variant must be called to receive it) must select the same branch when the SERIALIZER looks the
// variant name up in the table built by the real `PerTypeLookup::new` (cross-module consistency).

fn offered_name(node: &'static SchemaNode<'static>) -> OStr<20> {
	let mut st = DeserializerState::from_schema_node(SliceRead::new(&[]), nodes::nref(node));
	let access = SchemaTypeNameEnumAccess { state: &mut st, variant_schema: node, allowed_depth: AllowedDepth::new(4) };
	let r = serde::de::EnumAccess::variant_seed(access, std::marker::PhantomData::<OStr<20>>);
	match r {
		Ok((name, _variant)) => name,
		Err(e) => {
			std::mem::forget(e);
			assert!(false, "c02_union_names: deserializer offers no name for this branch");
			OStr::default()
		}
	}
}

fn name_roundtrip(u: &'static SchemaNode<'static>, idx: i64, branch: &'static SchemaNode<'static>) {
	let offered = offered_name(branch);
	// SAFETY: names are ASCII
	let s = unsafe { std::str::from_utf8_unchecked(offered.0.bytes()) };
	let un = match u {
		SchemaNode::Union(un) => un,
		_ => unreachable!(),
	};
	match un.per_type_lookup.named(s) {
		Some((i, n)) => assert!(i == idx && std::ptr::eq(n, branch), "c02_union_names: the offered variant name selects a different branch when serializing"),
		None => assert!(false, "c02_union_names: the variant name the deserializer offers is unknown to the serializer's union lookup"),
	}
}

// @harness props=C02 also=C01 tier=quick timeout=1800
// @bound union [null, long]: for both branches, offered name -> lookup -> same branch (table built by the real PerTypeLookup::new)
#[kani::proof]
#[kani::unwind(22)]
#[kani::stub(alloc::fmt::format, crate::verif::stub_format)]
fn c02_union_names_null_long() {
	crate::verif::union_node!(u = [&nodes::NULL, &nodes::LONG]);
	name_roundtrip(u, 0, &nodes::NULL);
	name_roundtrip(u, 1, &nodes::LONG);
	kani::cover!(true, "end of harness reached");
}

// @harness props=C02 also=C01 tier=thorough timeout=1800
// @bound union [boolean, int]: for both branches, offered name -> lookup -> same branch (table built by the real PerTypeLookup::new)
#[kani::proof]
#[kani::unwind(22)]
#[kani::stub(alloc::fmt::format, crate::verif::stub_format)]
fn c02_union_names_boolean_int() {
	crate::verif::union_node!(u = [&nodes::BOOLEAN, &nodes::INT]);
	name_roundtrip(u, 0, &nodes::BOOLEAN);
	name_roundtrip(u, 1, &nodes::INT);
	kani::cover!(true, "end of harness reached");
}

// @harness props=C02 also=C01 tier=thorough timeout=1800
// @bound union [float, double]: for both branches, offered name -> lookup -> same branch (table built by the real PerTypeLookup::new)
#[kani::proof]
#[kani::unwind(22)]
#[kani::stub(alloc::fmt::format, crate::verif::stub_format)]
fn c02_union_names_float_double() {
	crate::verif::union_node!(u = [&nodes::FLOAT, &nodes::DOUBLE]);
	name_roundtrip(u, 0, &nodes::FLOAT);
	name_roundtrip(u, 1, &nodes::DOUBLE);
	kani::cover!(true, "end of harness reached");
}

// @harness props=C02 also=C01 tier=quick timeout=1800
// @bound union [bytes, string]: for both branches, offered name -> lookup -> same branch (table built by the real PerTypeLookup::new)
#[kani::proof]
#[kani::unwind(22)]
#[kani::stub(alloc::fmt::format, crate::verif::stub_format)]
fn c02_union_names_bytes_string() {
	crate::verif::union_node!(u = [&nodes::BYTES, &nodes::STRING]);
	name_roundtrip(u, 0, &nodes::BYTES);
	name_roundtrip(u, 1, &nodes::STRING);
	kani::cover!(true, "end of harness reached");
}

// @harness props=C02 also=C01 tier=thorough timeout=1800
// @bound union [uuid, date]: for both branches, offered name -> lookup -> same branch (table built by the real PerTypeLookup::new)
#[kani::proof]
#[kani::unwind(22)]
#[kani::stub(alloc::fmt::format, crate::verif::stub_format)]
fn c02_union_names_uuid_date() {
	crate::verif::union_node!(u = [&nodes::UUID, &nodes::DATE]);
	name_roundtrip(u, 0, &nodes::UUID);
	name_roundtrip(u, 1, &nodes::DATE);
	kani::cover!(true, "end of harness reached");
}

// @harness props=C02 also=C01 tier=thorough timeout=1800
// @bound union [time_millis, time_micros]: for both branches, offered name -> lookup -> same branch (table built by the real PerTypeLookup::new)
#[kani::proof]
#[kani::unwind(22)]
#[kani::stub(alloc::fmt::format, crate::verif::stub_format)]
fn c02_union_names_timemillis_timemicros() {
	crate::verif::union_node!(u = [&nodes::TIME_MILLIS, &nodes::TIME_MICROS]);
	name_roundtrip(u, 0, &nodes::TIME_MILLIS);
	name_roundtrip(u, 1, &nodes::TIME_MICROS);
	kani::cover!(true, "end of harness reached");
}

// @harness props=C02 also=C01 tier=thorough timeout=1800
// @bound union [ts_millis, ts_micros]: for both branches, offered name -> lookup -> same branch (table built by the real PerTypeLookup::new)
#[kani::proof]
#[kani::unwind(22)]
#[kani::stub(alloc::fmt::format, crate::verif::stub_format)]
fn c02_union_names_tsmillis_tsmicros() {
	crate::verif::union_node!(u = [&nodes::TS_MILLIS, &nodes::TS_MICROS]);
	name_roundtrip(u, 0, &nodes::TS_MILLIS);
	name_roundtrip(u, 1, &nodes::TS_MICROS);
	kani::cover!(true, "end of harness reached");
}

// @harness props=C02 also=C01 tier=thorough timeout=1800
// @bound union [big_decimal, null]: for both branches, offered name -> lookup -> same branch (table built by the real PerTypeLookup::new)
#[kani::proof]
#[kani::unwind(22)]
#[kani::stub(alloc::fmt::format, crate::verif::stub_format)]
fn c02_union_names_bigdecimal_null() {
	crate::verif::union_node!(u = [&nodes::BIG_DECIMAL, &nodes::NULL]);
	name_roundtrip(u, 0, &nodes::BIG_DECIMAL);
	name_roundtrip(u, 1, &nodes::NULL);
	kani::cover!(true, "end of harness reached");
}

// @harness props=C02 also=C01 tier=quick timeout=1800 finding=F5
// @bound union [map<long>, duration]: the duration branch (offered as "Duration")
#[kani::proof]
#[kani::unwind(22)]
#[kani::stub(alloc::fmt::format, crate::verif::stub_format)]
fn c02_union_names_duration() {
	crate::verif::stack_node!(m = nodes::map_of(&nodes::LONG));
	crate::verif::union_node!(u = [m, &nodes::DURATION]);
	name_roundtrip(u, 0, m);
	name_roundtrip(u, 1, &nodes::DURATION);
	kani::cover!(true, "end of harness reached");
}

// @harness props=C02 also=C01 tier=thorough timeout=1800
// @bound union [array<long>, decimal(bytes)]: unnamed kinds by type name
#[kani::proof]
#[kani::unwind(22)]
#[kani::stub(alloc::fmt::format, crate::verif::stub_format)]
fn c02_union_names_array_decimal() {
	crate::verif::stack_node!(a = nodes::array_of(&nodes::LONG));
	crate::verif::stack_node!(d = nodes::dec_bytes(0));
	crate::verif::union_node!(u = [a, d]);
	name_roundtrip(u, 0, a);
	name_roundtrip(u, 1, d);
	kani::cover!(true, "end of harness reached");
}

// @harness props=C02 also=C01 tier=off timeout=1800
// @bound union [enum e, fixed f]: named kinds by (full)name
#[kani::proof]
#[kani::unwind(22)]
#[kani::stub(alloc::fmt::format, crate::verif::stub_format)]
fn c02_union_names_enum_fixed() {
	crate::verif::enum_node!(e = "e", None; ["a", "b"]);
	crate::verif::stack_node!(f = nodes::fixed_node(2));
	crate::verif::union_node!(u = [e, f]);
	name_roundtrip(u, 0, e);
	name_roundtrip(u, 1, f);
	kani::cover!(true, "end of harness reached");
}

// @harness props=C02 also=C01 tier=thorough timeout=1800
// @bound union [null, record n.r]: record branch by fullname
#[kani::proof]
#[kani::unwind(22)]
#[kani::stub(alloc::fmt::format, crate::verif::stub_format)]
fn c02_union_names_record_decfixed() {
	crate::verif::record_node!(r = "n.r", Some(1); [("a", &nodes::LONG)]);
	crate::verif::union_node!(u = [&nodes::NULL, r]);
	name_roundtrip(u, 0, &nodes::NULL);
	name_roundtrip(u, 1, r);
	kani::cover!(true, "end of harness reached");
}

// =============================================================================================
// C01: direct round trips through the REAL serializer and the REAL deserializer for the fixed-width and
// length-prefixed kinds (cross-check of the compositional argument: C02 cells say Ok => specification bytes,
// C03 says specification bytes => value). Chaining the two through a symbolic-LENGTH buffer (varints, arrays,
// decimals) costs > 12 GB / no verdict in 15 min, so those kinds are covered compositionally only.

use crate::ser::verif::sz::{ser_to, StrSrc};

// @harness props=C01 tier=quick timeout=900
// @bound float / double: every bit pattern (NaN payloads included) survives the round trip bit-exactly; boolean
#[kani::proof]
#[kani::unwind(10)]
#[kani::stub(alloc::fmt::format, crate::verif::stub_format)]
fn c01_rt_floats_bool() {
	let fb: u32 = kani::any();
	let (r, out) = ser_to::<8, _>(&nodes::FLOAT, &f32::from_bits(fb), false);
	assert!(r.is_ok());
	std::mem::forget(r);
	let (b, used) = de_slice::<f32>(&nodes::FLOAT, out.bytes());
	match &b {
		Ok(x) => assert!(x.to_bits() == fb && used == 4, "c01_rt_float: bits changed"),
		Err(_) => assert!(false, "c01_rt_float: own output rejected"),
	}
	std::mem::forget(b);
	let db: u64 = kani::any();
	let (r, out) = ser_to::<8, _>(&nodes::DOUBLE, &f64::from_bits(db), false);
	assert!(r.is_ok());
	std::mem::forget(r);
	let (b, used) = de_slice::<f64>(&nodes::DOUBLE, out.bytes());
	match &b {
		Ok(x) => assert!(x.to_bits() == db && used == 8, "c01_rt_double: bits changed"),
		Err(_) => assert!(false, "c01_rt_double: own output rejected"),
	}
	std::mem::forget(b);
	let t: bool = kani::any();
	let (r, out) = ser_to::<8, _>(&nodes::BOOLEAN, &t, false);
	assert!(r.is_ok());
	std::mem::forget(r);
	let (b, _) = de_slice::<bool>(&nodes::BOOLEAN, out.bytes());
	match &b {
		Ok(x) => assert!(*x == t, "c01_rt_bool: changed"),
		Err(_) => assert!(false, "c01_rt_bool: own output rejected"),
	}
	std::mem::forget(b);
	kani::cover!(true, "end of harness reached");
}

// @harness props=C01 tier=quick timeout=900
// @bound bytes of 0..=4 symbolic bytes (serde_bytes presentation) and fixed(3): byte-exact round trip, borrowed result points into the encoded slice
#[kani::proof]
#[kani::unwind(8)]
#[kani::stub(alloc::fmt::format, crate::verif::stub_format)]
fn c01_rt_bytes_fixed() {
	crate::verif::stack_node!(f3 = nodes::fixed_node(3));
	let content: [u8; 4] = kani::any();
	let n: usize = kani::any();
	kani::assume(n <= 4);
	let (r, out) = ser_to::<8, _>(&nodes::BYTES, &SBytes(&content[..n]), false);
	assert!(r.is_ok());
	std::mem::forget(r);
	let enc = out.bytes();
	let (b, used) = de_slice::<BBytes>(&nodes::BYTES, enc);
	match &b {
		Ok(x) => {
			assert!(used == enc.len() && x.0.len() == n, "c01_rt_bytes: length changed");
			let mut i = 0;
			while i < n {
				assert!(x.0[i] == content[i], "c01_rt_bytes: content changed");
				i += 1;
			}
			assert!(n == 0 || x.0.as_ptr() == enc[1..].as_ptr(), "c01_rt_bytes: not borrowed from the input");
		}
		Err(_) => assert!(false, "c01_rt_bytes: own output rejected"),
	}
	std::mem::forget(b);
	let (r, out) = ser_to::<8, _>(f3, &SBytes(&content[..3]), false);
	assert!(r.is_ok());
	std::mem::forget(r);
	let (b, used) = de_slice::<BBytes>(f3, out.bytes());
	match &b {
		Ok(x) => assert!(used == 3 && x.0.len() == 3 && x.0[0] == content[0] && x.0[1] == content[1] && x.0[2] == content[2], "c01_rt_fixed: changed"),
		Err(_) => assert!(false, "c01_rt_fixed: own output rejected"),
	}
	std::mem::forget(b);
	kani::cover!(true, "end of harness reached");
}

// @harness props=C01 tier=thorough timeout=1800
// @bound duration: every (u32,u32,u32) presented as tuple survives the round trip
#[kani::proof]
#[kani::unwind(14)]
#[kani::stub(alloc::fmt::format, crate::verif::stub_format)]
fn c01_rt_duration() {
	let (m, d, ms): (u32, u32, u32) = (kani::any(), kani::any(), kani::any());
	let (r, out) = ser_to::<16, _>(&nodes::DURATION, &DurTuple(m, d, ms), false);
	assert!(r.is_ok());
	std::mem::forget(r);
	let (b, _) = de_slice::<DurTuple>(&nodes::DURATION, out.bytes());
	match &b {
		Ok(x) => assert!(x.0 == m && x.1 == d && x.2 == ms, "c01_rt_duration: changed"),
		Err(_) => assert!(false, "c01_rt_duration: own output rejected"),
	}
	std::mem::forget(b);
	kani::cover!(true, "end of harness reached");
}

// @harness props=C01 tier=quick timeout=900
// @bound enum {a,b,cc}: each symbol presented as str reads back as the same symbol
#[kani::proof]
#[kani::unwind(8)]
#[kani::stub(alloc::fmt::format, crate::verif::stub_format)]
fn c01_rt_enum() {
	crate::verif::enum_node!(en = "e", None; ["a", "b", "cc"]);
	let (r, out) = ser_to::<4, _>(en, &StrSrc("cc"), false);
	assert!(r.is_ok());
	std::mem::forget(r);
	let (b, _) = de_slice::<OStr<2>>(en, out.bytes());
	match &b {
		Ok(x) => assert!(x.0.len == 2 && x.0.buf[0] == b'c' && x.0.buf[1] == b'c', "c01_rt_enum: symbol changed"),
		Err(_) => assert!(false, "c01_rt_enum: own output rejected"),
	}
	std::mem::forget(b);
	let (r, out) = ser_to::<4, _>(en, &StrSrc("a"), false);
	assert!(r.is_ok());
	std::mem::forget(r);
	let (b, _) = de_slice::<OStr<2>>(en, out.bytes());
	match &b {
		Ok(x) => assert!(x.0.len == 1 && x.0.buf[0] == b'a', "c01_rt_enum: symbol changed"),
		Err(_) => assert!(false, "c01_rt_enum: own output rejected"),
	}
	std::mem::forget(b);
	kani::cover!(true, "end of harness reached");
}

fn block_count_extreme_case(first: [u8; 10]) {
	crate::verif::stack_node!(arr = nodes::array_of(&nodes::LONG));
	let tail: u8 = kani::any();
	let tl: usize = kani::any();
	kani::assume(tl <= 1);
	let mut data = [0u8; 11];
	let mut i = 0;
	while i < 10 {
		data[i] = first[i];
		i += 1;
	}
	data[10] = tail;
	let (r, _) = de_slice_cfg::<Seq<i64, 3>>(arr, &data[..10 + tl], 1_000_000_000, 64);
	assert!(r.is_err(), "c04: array with an astronomically large block count decoded from 11 bytes");
	std::mem::forget(r);
}

// @harness props=C04,C03 tier=quick timeout=1200
// @bound array<long> whose first block count is i64::MIN (10-byte varint ff*9 01: the count whose negation overflows) followed by 0..=1 symbolic byte: no panic / overflow, and never Ok
#[kani::proof]
#[kani::unwind(13)]
#[kani::stub(alloc::fmt::format, crate::verif::stub_format)]
fn c04_block_count_i64_min() {
	let mut first = [0xffu8; 10];
	first[9] = 0x01;
	block_count_extreme_case(first);
	kani::cover!(true, "end of harness reached");
}

// @harness props=C04,C03 tier=thorough timeout=3600
// @bound same for the counts i64::MAX (fe ff*8 01) and i64::MIN+1 (fd ff*8 01)
#[kani::proof]
#[kani::unwind(13)]
#[kani::stub(alloc::fmt::format, crate::verif::stub_format)]
fn c04_block_count_extremes() {
	let mut first = [0xffu8; 10];
	first[9] = 0x01;
	first[0] = 0xfe;
	block_count_extreme_case(first);
	first[0] = 0xfd;
	block_count_extreme_case(first);
	kani::cover!(true, "end of harness reached");
}

// =============================================================================================
// C04: every descent into a composite costs one level of the depth budget

struct EnumTarget;
impl<'de> serde::Deserialize<'de> for EnumTarget {
	fn deserialize<D: serde::Deserializer<'de>>(d: D) -> Result<Self, D::Error> {
		struct V;
		impl<'de> Visitor<'de> for V {
			type Value = EnumTarget;
			fn expecting(&self, f: &mut std::fmt::Formatter) -> std::fmt::Result {
				f.write_str("enum")
			}
			fn visit_enum<A: EnumAccess<'de>>(self, _a: A) -> Result<EnumTarget, A::Error> {
				Ok(EnumTarget)
			}
		}
		d.deserialize_enum("E", &["A"], V)
	}
}
struct MapTarget;
impl<'de> serde::Deserialize<'de> for MapTarget {
	fn deserialize<D: serde::Deserializer<'de>>(d: D) -> Result<Self, D::Error> {
		struct V;
		impl<'de> Visitor<'de> for V {
			type Value = MapTarget;
			fn expecting(&self, f: &mut std::fmt::Formatter) -> std::fmt::Result {
				f.write_str("map")
			}
			fn visit_map<A: MapAccess<'de>>(self, _a: A) -> Result<MapTarget, A::Error> {
				Ok(MapTarget)
			}
			fn visit_seq<A: SeqAccess<'de>>(self, _a: A) -> Result<MapTarget, A::Error> {
				Ok(MapTarget)
			}
		}
		d.deserialize_any(V)
	}
}

fn depth0<'a, T: serde::Deserialize<'a>>(node: &'static SchemaNode<'static>, data: &'a [u8]) -> bool {
	let (r, _) = de_slice_cfg::<T>(node, data, 1000, 0);
	let e = r.is_err();
	std::mem::forget(r);
	e
}

// @harness props=C04 tier=quick timeout=1200
// @bound allowed_depth = 0: entering an array, a map, a record must each be refused (targets that do not descend further: the refusal has to come from the depth budget of that very descent)
#[kani::proof]
#[kani::unwind(8)]
#[kani::stub(alloc::fmt::format, crate::verif::stub_format)]
fn c04_depth_zero_containers() {
	crate::verif::stack_node!(arr = nodes::array_of(&nodes::LONG));
	crate::verif::stack_node!(map = nodes::map_of(&nodes::LONG));
	crate::verif::record_node!(rec = "r", None; [("a", &nodes::LONG)]);
	let data = [0u8, 0, 0];
	assert!(depth0::<MapTarget>(arr, &data), "c04_depth: entering an array did not cost a depth level");
	assert!(depth0::<MapTarget>(map, &data), "c04_depth: entering a map did not cost a depth level");
	assert!(depth0::<MapTarget>(rec, &data), "c04_depth: entering a record did not cost a depth level");
	kani::cover!(true, "end of harness reached");
}

// @harness props=C04 tier=thorough timeout=3600
// @bound allowed_depth = 0: entering a union (as a value, as a Rust enum) must be refused
#[kani::proof]
#[kani::unwind(8)]
#[kani::stub(alloc::fmt::format, crate::verif::stub_format)]
fn c04_depth_zero_union() {
	crate::verif::union_node_de!(un = [&nodes::NULL, &nodes::LONG]);
	let data = [0u8, 0, 0];
	assert!(depth0::<()>(un, &data), "c04_depth: entering a union did not cost a depth level");
	assert!(depth0::<EnumTarget>(un, &data), "c04_depth: entering a union as enum did not cost a depth level");
	kani::cover!(true, "end of harness reached");
}

// @harness props=C04 tier=quick timeout=1200
// @bound allowed_depth = 0: reading an enum / a plain value as a Rust enum must be refused
#[kani::proof]
#[kani::unwind(8)]
#[kani::stub(alloc::fmt::format, crate::verif::stub_format)]
fn c04_depth_zero_enum() {
	crate::verif::enum_node!(en = "e", None; ["a", "b"]);
	let data = [0u8, 0, 0];
	assert!(depth0::<EnumTarget>(en, &data), "c04_depth: reading an enum as a Rust enum did not cost a depth level");
	assert!(depth0::<EnumTarget>(&nodes::DOUBLE, &data), "c04_depth: reading a value as a newtype-variant enum did not cost a depth level");
	kani::cover!(true, "end of harness reached");
}
/// reference decode of map<long> into at most 2 entries with keys of at most 1 byte
fn ref_map_long(d: &mut spec::Dec, keys: &mut [OBytes<1>; 2], vals: &mut [i64; 2], n: &mut usize, over: &mut bool) -> Option<()> {
	let mut left: u64 = 0;
	let mut size: Option<u64> = None;
	let mut start = 0;
	let mut tokens = 0;
	loop {
		if tokens > d.data.len() {
			return None;
		}
		tokens += 1;
		if left == 0 {
			if let Some(sz) = size {
				if sz != (d.pos - start) as u64 {
					d.noncanon = true;
				}
			}
			size = None;
			let c = d.block_count(&mut size)?;
			if c == 0 {
				return Some(());
			}
			left = c;
			start = d.pos;
		} else {
			let k = d.len_prefixed()?;
			if !spec::utf8_valid(k) {
				return None;
			}
			let v = d.long()?;
			if *n < 2 && k.len() <= 1 {
				keys[*n].len = k.len();
				if k.len() == 1 {
					keys[*n].buf[0] = k[0];
				}
				vals[*n] = v;
				*n += 1;
			} else {
				*over = true;
			}
			left -= 1;
		}
	}
}

// @harness props=C03,C04 also=C01 tier=thorough timeout=3600
// @bound map<long>: every byte string of length 0..=6 against the reference decoder (string keys: UTF-8 verdict from the reference validator), maps of more than 2 entries or keys longer than 1 byte are outside
#[kani::proof]
#[kani::unwind(10)]
#[kani::stub(alloc::fmt::format, crate::verif::stub_format)]
#[kani::stub(std::str::from_utf8, crate::verif::stub_from_utf8)]
fn c03_diff_map_long() {
	crate::verif::stack_node!(map = nodes::map_of(&nodes::LONG));
	let data: [u8; 6] = kani::any();
	let len: usize = kani::any();
	kani::assume(len <= 6);
	let s = &data[..len];
	let mut d = spec::Dec::new(s);
	let mut keys = [OBytes::<1>::default(); 2];
	let mut vals = [0i64; 2];
	let mut n = 0;
	let mut over = false;
	let ok = ref_map_long(&mut d, &mut keys, &mut vals, &mut n, &mut over);
	kani::assume(!over);
	let (r, used) = de_slice::<Map1<i64, 2>>(map, s);
	kani::cover!(ok.is_some() && n == 2);
	kani::cover!(ok.is_some() && n == 1 && data[0] == 1);
	match (&r, ok) {
		(Ok(m), Some(())) => {
			assert!(m.len == n && used == d.pos, "c03_diff_map: entry count/length differs from the reference decoder");
			let mut i = 0;
			while i < n {
				assert!(m.vals[i] == vals[i] && m.keys[i] == keys[i], "c03_diff_map: entry differs from the reference decoder");
				i += 1;
			}
		}
		(Ok(_), None) => assert!(false, "c03_diff_map: invalid encoding produced a value"),
		(Err(_), Some(())) => assert!(d.noncanon, "c03_diff_map: valid encoding rejected"),
		(Err(_), None) => {}
	}
	std::mem::forget(r);
	kani::cover!(true, "end of harness reached");
}
