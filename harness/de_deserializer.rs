// Mounted in serde_avro_fast::de::deserializer — datum deserializer harnesses (C01 C03 C04 C12)
use super::*;
use crate::de::read::{ReaderRead, SliceRead};
use crate::schema::verif as nodes;
use crate::verif::{io::*, spec};

pub(crate) fn de_slice<'de, T: serde::Deserialize<'de>>(
	node: &'static SchemaNode<'static>,
	data: &'de [u8],
) -> (Result<T, DeError>, usize) {
	let mut st = DeserializerState::from_schema_node(SliceRead::new(data), nodes::nref(node));
	let r = T::deserialize(st.deserializer());
	let left = std::io::BufRead::fill_buf(&mut st.reader).map(|b| b.len()).unwrap_or(0);
	(r, data.len() - left)
}

// @harness props=C03 tier=quick timeout=600
// @bound all i64 values, minimal-length varint (1..=10 bytes); unwind 12 >= 10 varint bytes + 1
#[kani::proof]
#[kani::unwind(12)]
#[kani::stub(alloc::fmt::format, crate::verif::stub_format)]
fn c03_dec_long() {
	// every i64, minimal encoding
	let v: i64 = kani::any();
	let mut buf = [0u8; 10];
	let n = spec::put_long(v, &mut buf, 0);
	let (r, used) = de_slice::<i64>(&nodes::LONG, &buf[..n]);
	kani::cover!(v == i64::MIN);
	kani::cover!(n == 10);
	match &r {
		Ok(back) => assert!(*back == v && used == n, "c03_dec_long: wrong value or length"),
		Err(_) => assert!(false, "c03_dec_long: valid encoding rejected"),
	}
	std::mem::forget(r);
}

// Reachability twin: must come back VIOLATED (the runner treats SUCCESS here as a broken check)
// @harness props=C03 tier=quick timeout=600 expect=fail
// @bound same as c03_dec_long
#[kani::proof]
#[kani::unwind(12)]
#[kani::stub(alloc::fmt::format, crate::verif::stub_format)]
fn twin_dec_long() {
	let v: i64 = kani::any();
	let mut buf = [0u8; 10];
	let n = spec::put_long(v, &mut buf, 0);
	let (r, used) = de_slice::<i64>(&nodes::LONG, &buf[..n]);
	assert!(!(r.is_ok() && used == 10), "twin: reached end of harness with a 10-byte varint");
	std::mem::forget(r);
}
