// Mounted in serde_avro_fast::single_object_encoding — C18
use super::*;
use crate::schema::self_referential::SchemaNode;
use crate::verif::{io::*, spec};

fn long_schema(storage: &mut [SchemaNode<'static>; 1], fp: [u8; 8]) -> Schema {
	let st: &'static mut [SchemaNode<'static>] = unsafe { std::mem::transmute(&mut storage[..]) };
	crate::schema::self_referential::verif::schema_over(st, fp)
}

// @harness props=C18 tier=quick timeout=900
// @bound schema `long` with EVERY 8-byte fingerprint, every i64 value: output == C3 01 || fingerprint || zig-zag varint
#[kani::proof]
#[kani::unwind(13)]
#[kani::stub(alloc::fmt::format, crate::verif::stub_format)]
fn c18_to_single_object() {
	let fp: [u8; 8] = kani::any();
	let mut storage = [SchemaNode::Long];
	let schema = long_schema(&mut storage, fp);
	let v: i64 = kani::any();
	let mut config = ser::SerializerConfig::new(&schema);
	let r = to_single_object(&v, FixedBuf::<24>::new(), &mut config);
	kani::cover!(v == i64::MIN);
	match &r {
		Ok(w) => {
			let out = w.bytes();
			let mut want = [0u8; 10];
			let n = spec::put_long(v, &mut want, 0);
			assert!(out.len() == 10 + n, "c18: wrong total length");
			assert!(out[0] == 0xC3 && out[1] == 0x01, "c18: marker is not C3 01");
			let mut i = 0;
			while i < 8 {
				assert!(out[2 + i] == fp[i], "c18: fingerprint bytes differ from the schema's fingerprint");
				i += 1;
			}
			i = 0;
			while i < n {
				assert!(out[10 + i] == want[i], "c18: payload is not the datum encoding");
				i += 1;
			}
		}
		Err(_) => assert!(false, "c18: serialization of a conforming value failed"),
	}
	std::mem::forget(r);
	std::mem::forget(config);
	std::mem::forget(schema);
	kani::cover!(true, "end of harness reached");
}

// @harness props=C18,C11 tier=quick timeout=1200
// @bound schema `long`, every fingerprint, every input of length 0..=21 (all headers, markers, truncations): slice decode is Ok(v) iff input starts with C3 01 || fingerprint || valid long; reader decode (every uniform refill size 1..=21) agrees with the slice decode
#[kani::proof]
#[kani::unwind(23)]
#[kani::stub(alloc::fmt::format, crate::verif::stub_format)]
fn c18_from_single_object() {
	let fp: [u8; 8] = kani::any();
	let mut storage = [SchemaNode::Long];
	let schema = long_schema(&mut storage, fp);
	let data: [u8; 21] = kani::any();
	let len: usize = kani::any();
	kani::assume(len <= 21);
	let s = &data[..len];
	let chunk: usize = kani::any();
	kani::assume(chunk >= 1 && chunk <= 21);
	let header_ok = len >= 10
		&& data[0] == 0xC3
		&& data[1] == 0x01
		&& data[2] == fp[0]
		&& data[3] == fp[1]
		&& data[4] == fp[2]
		&& data[5] == fp[3]
		&& data[6] == fp[4]
		&& data[7] == fp[5]
		&& data[8] == fp[6]
		&& data[9] == fp[7];
	let mut d = spec::Dec::new(if len >= 10 { &s[10..] } else { &s[0..0] });
	let want = if header_ok { d.long() } else { None };
	let a = from_single_object_slice::<i64>(s, &schema);
	let b = from_single_object_reader::<_, i64>(Chunked::new(s, chunk), &schema);
	kani::cover!(a.is_ok() && len == 20);
	kani::cover!(a.is_err() && len >= 10 && data[0] == 0xC3 && data[1] == 0x01);
	match (&a, want) {
		(Ok(v), Some(w)) => assert!(*v == w, "c18: wrong value"),
		(Ok(_), None) => assert!(false, "c18: message with wrong marker/fingerprint/short header (or invalid payload) was decoded"),
		(Err(_), Some(_)) => assert!(d.noncanon, "c18: well-formed single-object message rejected"),
		(Err(_), None) => {}
	}
	match (&a, &b) {
		(Ok(x), Ok(y)) => assert!(*x == *y, "c18: slice and reader decode different values"),
		(Err(_), Err(_)) => {}
		_ => assert!(false, "c18: slice and reader disagree on Ok/Err"),
	}
	std::mem::forget(a);
	std::mem::forget(b);
	std::mem::forget(schema);
	kani::cover!(true, "end of harness reached");
}

// @harness props=C18,C11 tier=quick timeout=1200
// @bound schema `null` (zero-byte datum: the message is exactly the 10-byte header), every fingerprint, every input of length 0..=12: Ok iff the input starts with C3 01 || fingerprint; slice and reader (every refill size) agree
#[kani::proof]
#[kani::unwind(14)]
#[kani::stub(alloc::fmt::format, crate::verif::stub_format)]
fn c18_from_single_object_null() {
	let fp: [u8; 8] = kani::any();
	let mut storage = [SchemaNode::Null];
	let schema = long_schema(&mut storage, fp);
	let data: [u8; 12] = kani::any();
	let len: usize = kani::any();
	kani::assume(len <= 12);
	let s = &data[..len];
	let chunk: usize = kani::any();
	kani::assume(chunk >= 1 && chunk <= 12);
	let header_ok = len >= 10
		&& data[0] == 0xC3
		&& data[1] == 0x01
		&& data[2] == fp[0]
		&& data[3] == fp[1]
		&& data[4] == fp[2]
		&& data[5] == fp[3]
		&& data[6] == fp[4]
		&& data[7] == fp[5]
		&& data[8] == fp[6]
		&& data[9] == fp[7];
	let a = from_single_object_slice::<()>(s, &schema);
	let b = from_single_object_reader::<_, ()>(Chunked::new(s, chunk), &schema);
	kani::cover!(a.is_ok() && len == 10);
	kani::cover!(a.is_err() && len == 10);
	assert!(a.is_ok() == header_ok, "c18_null: slice decode must succeed exactly when marker and fingerprint match");
	assert!(a.is_ok() == b.is_ok(), "c18_null: slice and reader disagree on Ok/Err");
	std::mem::forget(a);
	std::mem::forget(b);
	std::mem::forget(schema);
	kani::cover!(true, "end of harness reached");
}
