// Mounted in serde_avro_fast::ser — access to the buffer pools of SerializerConfig (C14)
use super::*;

pub(crate) fn pool_sizes(c: &SerializerConfig<'_>) -> (usize, usize) {
	(c.buffers.field_reordering_buffers.len(), c.buffers.field_reordering_super_buffers.len())
}
/// representation invariant of the pools: every pooled buffer is empty (what every `pop` asserts)
pub(crate) fn pool_invariant(c: &SerializerConfig<'_>) -> bool {
	let mut i = 0;
	while i < c.buffers.field_reordering_buffers.len() {
		if !c.buffers.field_reordering_buffers[i].is_empty() {
			return false;
		}
		i += 1;
	}
	i = 0;
	while i < c.buffers.field_reordering_super_buffers.len() {
		if !c.buffers.field_reordering_super_buffers[i].is_empty() {
			return false;
		}
		i += 1;
	}
	true
}

/// re-export of the serializer harness helpers (the `serializer` module itself is private to `ser`)
pub(crate) use super::serializer::verif as sz;
