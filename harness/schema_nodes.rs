// Constant schema nodes (mounted in serde_avro_fast::schema so that `Name`'s private fields are
// reachable). CBMC only folds the schema `match`es when nodes are compile-time constants
// (DESIGN.md §1), hence `static`s whose Vec/String parts point into static arrays.
use super::self_referential::{
	Decimal, DecimalRepr, Enum, NodeRef, Record, RecordField, SchemaNode, Union,
};
use super::union_variants_per_type_lookup::PerTypeLookup;
use super::{Fixed, Name};
use crate::verif::LinearMap;

pub(crate) const fn svec<T>(s: &'static [T]) -> Vec<T> {
	// SAFETY (verification only): the Vec is stored in a `static` and never dropped, grown or written
	unsafe { Vec::from_raw_parts(s.as_ptr() as *mut T, s.len(), s.len()) }
}
pub(crate) const fn sstring(s: &'static str) -> String {
	// SAFETY: as above; bytes come from a str
	unsafe { std::mem::transmute::<Vec<u8>, String>(svec(s.as_bytes())) }
}
pub(crate) const fn name(fq: &'static str, delim: Option<usize>) -> Name {
	Name {
		fully_qualified_name: sstring(fq),
		namespace_delimiter_idx: delim,
	}
}
pub(crate) const fn nref(n: &'static SchemaNode<'static>) -> NodeRef<'static> {
	NodeRef::from_static(n)
}

pub(crate) static NULL: SchemaNode<'static> = SchemaNode::Null;
pub(crate) static BOOLEAN: SchemaNode<'static> = SchemaNode::Boolean;
pub(crate) static INT: SchemaNode<'static> = SchemaNode::Int;
pub(crate) static LONG: SchemaNode<'static> = SchemaNode::Long;
pub(crate) static FLOAT: SchemaNode<'static> = SchemaNode::Float;
pub(crate) static DOUBLE: SchemaNode<'static> = SchemaNode::Double;
pub(crate) static BYTES: SchemaNode<'static> = SchemaNode::Bytes;
pub(crate) static STRING: SchemaNode<'static> = SchemaNode::String;
pub(crate) static UUID: SchemaNode<'static> = SchemaNode::Uuid;
pub(crate) static DATE: SchemaNode<'static> = SchemaNode::Date;
pub(crate) static TIME_MILLIS: SchemaNode<'static> = SchemaNode::TimeMillis;
pub(crate) static TIME_MICROS: SchemaNode<'static> = SchemaNode::TimeMicros;
pub(crate) static TS_MILLIS: SchemaNode<'static> = SchemaNode::TimestampMillis;
pub(crate) static TS_MICROS: SchemaNode<'static> = SchemaNode::TimestampMicros;
pub(crate) static DURATION: SchemaNode<'static> = SchemaNode::Duration;
pub(crate) static BIG_DECIMAL: SchemaNode<'static> = SchemaNode::BigDecimal;

pub(crate) static ARRAY_LONG: SchemaNode<'static> = SchemaNode::Array(nref(&LONG));
pub(crate) static ARRAY_NULL: SchemaNode<'static> = SchemaNode::Array(nref(&NULL));
pub(crate) static ARRAY_BYTES: SchemaNode<'static> = SchemaNode::Array(nref(&BYTES));
pub(crate) static ARRAY_ARRAY_LONG: SchemaNode<'static> = SchemaNode::Array(nref(&ARRAY_LONG));
pub(crate) static MAP_LONG: SchemaNode<'static> = SchemaNode::Map(nref(&LONG));
pub(crate) static MAP_BYTES: SchemaNode<'static> = SchemaNode::Map(nref(&BYTES));
/// array whose items are itself: cycle through unnamed nodes, for depth-limit harnesses
pub(crate) static ARRAY_SELF: SchemaNode<'static> = SchemaNode::Array(nref(&ARRAY_SELF));

pub(crate) const fn fixed(n: usize) -> Fixed {
	Fixed { size: n, name: name("f", None) }
}
pub(crate) static FIXED0: SchemaNode<'static> = SchemaNode::Fixed(fixed(0));
pub(crate) static FIXED1: SchemaNode<'static> = SchemaNode::Fixed(fixed(1));
pub(crate) static FIXED2: SchemaNode<'static> = SchemaNode::Fixed(fixed(2));
pub(crate) static FIXED3: SchemaNode<'static> = SchemaNode::Fixed(fixed(3));
pub(crate) static FIXED4: SchemaNode<'static> = SchemaNode::Fixed(fixed(4));

pub(crate) const fn dec_bytes(scale: u32) -> SchemaNode<'static> {
	SchemaNode::Decimal(Decimal { _precision: 28, scale, repr: DecimalRepr::Bytes })
}
pub(crate) const fn dec_fixed(n: usize, scale: u32) -> SchemaNode<'static> {
	SchemaNode::Decimal(Decimal { _precision: 28, scale, repr: DecimalRepr::Fixed(fixed(n)) })
}
pub(crate) static DEC_BYTES_S0: SchemaNode<'static> = dec_bytes(0);
pub(crate) static DEC_BYTES_S1: SchemaNode<'static> = dec_bytes(1);
pub(crate) static DEC_BYTES_S2: SchemaNode<'static> = dec_bytes(2);
pub(crate) static DEC_FIXED0_S0: SchemaNode<'static> = dec_fixed(0, 0);
pub(crate) static DEC_FIXED1_S0: SchemaNode<'static> = dec_fixed(1, 0);
pub(crate) static DEC_FIXED2_S0: SchemaNode<'static> = dec_fixed(2, 0);
pub(crate) static DEC_FIXED8_S0: SchemaNode<'static> = dec_fixed(8, 0);
pub(crate) static DEC_FIXED16_S0: SchemaNode<'static> = dec_fixed(16, 0);
pub(crate) static DEC_FIXED17_S0: SchemaNode<'static> = dec_fixed(17, 0);
pub(crate) static DEC_FIXED2_S1: SchemaNode<'static> = dec_fixed(2, 1);

// --- composite nodes ------------------------------------------------------------------------------
// Enum / Record / Union nodes are NOT statics: a static with two or more pointer relocations is
// emitted by Kani as a byte blob whose niche discriminant CBMC does not fold (measured: timeout
// vs 12 s). They are built as stack locals of the harness by the macros in root.rs
// (enum_node!, record_node!, union_node!).

pub(crate) fn per_type_lookup_new(variants: &[NodeRef<'static>]) -> PerTypeLookup<'static> {
	PerTypeLookup::new(variants)
}
