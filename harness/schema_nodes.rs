// Constant schema nodes (mounted in serde_avro_fast::schema so that `Name`'s private fields are
// reachable). CBMC only folds the schema `match`es when nodes are compile-time constants
// (DESIGN.md §1), hence `static`s whose Vec/String parts point into static arrays.
use super::self_referential::{
	Decimal, DecimalRepr, Enum, NodeRef, Record, RecordField, SchemaNode, Union,
};
use super::union_variants_per_type_lookup::PerTypeLookup;
use super::{Fixed, Name};
use crate::verif::LinearMap;

pub(crate) const fn svec<T>(s: &'static [T]) -> Vec<T> {
	// SAFETY (verification only): the Vec is stored in a `static` and never dropped, grown or written
	unsafe { Vec::from_raw_parts(s.as_ptr() as *mut T, s.len(), s.len()) }
}
pub(crate) const fn sstring(s: &'static str) -> String {
	// SAFETY: as above; bytes come from a str
	unsafe { std::mem::transmute::<Vec<u8>, String>(svec(s.as_bytes())) }
}
pub(crate) const fn name(fq: &'static str, delim: Option<usize>) -> Name {
	Name {
		fully_qualified_name: sstring(fq),
		namespace_delimiter_idx: delim,
	}
}
pub(crate) const fn nref(n: &'static SchemaNode<'static>) -> NodeRef<'static> {
	NodeRef::from_static(n)
}

pub(crate) static NULL: SchemaNode<'static> = SchemaNode::Null;
pub(crate) static BOOLEAN: SchemaNode<'static> = SchemaNode::Boolean;
pub(crate) static INT: SchemaNode<'static> = SchemaNode::Int;
pub(crate) static LONG: SchemaNode<'static> = SchemaNode::Long;
pub(crate) static FLOAT: SchemaNode<'static> = SchemaNode::Float;
pub(crate) static DOUBLE: SchemaNode<'static> = SchemaNode::Double;
pub(crate) static BYTES: SchemaNode<'static> = SchemaNode::Bytes;
pub(crate) static STRING: SchemaNode<'static> = SchemaNode::String;
pub(crate) static UUID: SchemaNode<'static> = SchemaNode::Uuid;
pub(crate) static DATE: SchemaNode<'static> = SchemaNode::Date;
pub(crate) static TIME_MILLIS: SchemaNode<'static> = SchemaNode::TimeMillis;
pub(crate) static TIME_MICROS: SchemaNode<'static> = SchemaNode::TimeMicros;
pub(crate) static TS_MILLIS: SchemaNode<'static> = SchemaNode::TimestampMillis;
pub(crate) static TS_MICROS: SchemaNode<'static> = SchemaNode::TimestampMicros;
pub(crate) static DURATION: SchemaNode<'static> = SchemaNode::Duration;
pub(crate) static BIG_DECIMAL: SchemaNode<'static> = SchemaNode::BigDecimal;

pub(crate) const fn fixed(n: usize) -> Fixed {
	Fixed { size: n, name: name("f", None) }
}
pub(crate) const fn fixed_node(n: usize) -> SchemaNode<'static> {
	SchemaNode::Fixed(fixed(n))
}
pub(crate) const fn dec_bytes(scale: u32) -> SchemaNode<'static> {
	SchemaNode::Decimal(Decimal { _precision: 28, scale, repr: DecimalRepr::Bytes })
}
pub(crate) const fn dec_fixed(n: usize, scale: u32) -> SchemaNode<'static> {
	SchemaNode::Decimal(Decimal { _precision: 28, scale, repr: DecimalRepr::Fixed(fixed(n)) })
}
pub(crate) const fn array_of(n: &'static SchemaNode<'static>) -> SchemaNode<'static> {
	SchemaNode::Array(nref(n))
}
pub(crate) const fn map_of(n: &'static SchemaNode<'static>) -> SchemaNode<'static> {
	SchemaNode::Map(nref(n))
}

// --- composite nodes ------------------------------------------------------------------------------
// Enum / Record / Union nodes are NOT statics: a static with two or more pointer relocations is
// emitted by Kani as a byte blob whose niche discriminant CBMC does not fold (measured: timeout
// vs 12 s). They are built as stack locals of the harness by the macros in root.rs
// (enum_node!, record_node!, union_node!).

pub(crate) fn per_type_lookup_new(variants: &[NodeRef<'static>]) -> PerTypeLookup<'static> {
	PerTypeLookup::new(variants)
}

pub(crate) fn per_type_lookup_placeholder() -> PerTypeLookup<'static> {
	PerTypeLookup::placeholder()
}

pub(crate) fn lookup_null_long(null: NodeRef<'static>, long: NodeRef<'static>) -> PerTypeLookup<'static> {
	super::union_variants_per_type_lookup::verif::lookup_null_long(null, long)
}
