// I/O environment models: writers/readers that cannot fail unless failure is the subject.

/// `io::Write` over a fixed array that cannot fail. N is chosen well above the largest legitimate output
/// of the harness; writing more than N bytes is an ASSERTION failure (an `assume` here would silently discard
/// exactly the runs in which the code under test emits too much: seeded change C08_m1 slipped through that way).
pub(crate) struct FixedBuf<const N: usize> {
	pub(crate) buf: [u8; N],
	pub(crate) len: usize,
}
impl<const N: usize> FixedBuf<N> {
	pub(crate) fn new() -> Self {
		Self { buf: [0; N], len: 0 }
	}
	pub(crate) fn bytes(&self) -> &[u8] {
		&self.buf[..self.len]
	}
}
impl<const N: usize> std::io::Write for FixedBuf<N> {
	fn write(&mut self, data: &[u8]) -> std::io::Result<usize> {
		assert!(self.len + data.len() <= N, "verif: output exceeds the harness buffer (longer than any valid output)");
		let mut i = 0;
		while i < data.len() {
			self.buf[self.len + i] = data[i];
			i += 1;
		}
		self.len += data.len();
		Ok(data.len())
	}
	fn write_all(&mut self, data: &[u8]) -> std::io::Result<()> {
		assert!(self.len + data.len() <= N, "verif: output exceeds the harness buffer (longer than any valid output)");
		let mut i = 0;
		while i < data.len() {
			self.buf[self.len + i] = data[i];
			i += 1;
		}
		self.len += data.len();
		Ok(())
	}
	fn flush(&mut self) -> std::io::Result<()> {
		Ok(())
	}
}

/// `BufRead` over a slice that hands out at most `chunk` bytes per refill (uniform chunk size).
/// A refill happens only when the previous chunk has been fully consumed (like `BufReader`).
pub(crate) struct Chunked<'a> {
	pub(crate) data: &'a [u8],
	pub(crate) pos: usize,
	/// end of the currently buffered chunk
	pub(crate) end: usize,
	pub(crate) chunk: usize,
}
impl<'a> Chunked<'a> {
	pub(crate) fn new(data: &'a [u8], chunk: usize) -> Self {
		Self { data, pos: 0, end: 0, chunk }
	}
	pub(crate) fn consumed(&self) -> usize {
		self.pos
	}
}
impl std::io::Read for Chunked<'_> {
	fn read(&mut self, out: &mut [u8]) -> std::io::Result<usize> {
		let avail = std::io::BufRead::fill_buf(self)?;
		let n = if avail.len() < out.len() { avail.len() } else { out.len() };
		out[..n].copy_from_slice(&avail[..n]);
		std::io::BufRead::consume(self, n);
		Ok(n)
	}
	/// Like `BufReader`, `read_exact` is specialised: all-or-`UnexpectedEof`. The bytes delivered do
	/// not depend on the refill schedule; afterwards the internal buffer is empty unless the request
	/// was served from the current chunk.
	fn read_exact(&mut self, out: &mut [u8]) -> std::io::Result<()> {
		let rem = self.data.len() - self.pos;
		if rem < out.len() {
			self.pos = self.data.len();
			self.end = self.pos;
			return Err(std::io::Error::from(std::io::ErrorKind::UnexpectedEof));
		}
		out.copy_from_slice(&self.data[self.pos..self.pos + out.len()]);
		self.pos += out.len();
		if self.end < self.pos {
			self.end = self.pos;
		}
		Ok(())
	}
}
impl std::io::BufRead for Chunked<'_> {
	fn fill_buf(&mut self) -> std::io::Result<&[u8]> {
		if self.pos >= self.end {
			let rem = self.data.len() - self.pos;
			let n = if rem < self.chunk { rem } else { self.chunk };
			self.end = self.pos + n;
		}
		Ok(&self.data[self.pos..self.end])
	}
	fn consume(&mut self, amt: usize) {
		assert!(self.pos + amt <= self.end, "Chunked: consume past the buffered chunk");
		self.pos += amt;
	}
}
