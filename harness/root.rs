// Root of the verification harness code, mounted as `crate::verif` inside serde_avro_fast
// under cfg(kani) (see /verif/DESIGN.md). Shared helpers only.

pub(crate) mod spec {
	include!(concat!(env!("SAF_VERIF"), "/spec.rs"));
}
pub(crate) mod targets {
	include!(concat!(env!("SAF_VERIF"), "/targets.rs"));
}
pub(crate) mod io {
	include!(concat!(env!("SAF_VERIF"), "/io.rs"));
}

/// Environment model of `std::collections::HashMap` used for the three name-lookup tables of the
/// frozen schema under verification: association list + linear scan. Assumption recorded in
/// evidence: "std's HashMap is a correct map".
pub(crate) struct LinearMap<K, V> {
	pub(crate) entries: Vec<(K, V)>,
}
impl<K, V> LinearMap<K, V> {
	pub(crate) const fn from_vec(entries: Vec<(K, V)>) -> Self {
		Self { entries }
	}
	pub(crate) fn new() -> Self {
		Self { entries: Vec::new() }
	}
	pub(crate) fn len(&self) -> usize {
		self.entries.len()
	}
}
impl<K: Eq, V> LinearMap<K, V> {
	pub(crate) fn get<Q: ?Sized + Eq>(&self, k: &Q) -> Option<&V>
	where
		K: std::borrow::Borrow<Q>,
	{
		let mut i = 0;
		while i < self.entries.len() {
			if self.entries[i].0.borrow() == k {
				return Some(&self.entries[i].1);
			}
			i += 1;
		}
		None
	}
	pub(crate) fn insert(&mut self, k: K, v: V) -> Option<V> {
		let mut i = 0;
		while i < self.entries.len() {
			if self.entries[i].0 == k {
				return Some(std::mem::replace(&mut self.entries[i].1, v));
			}
			i += 1;
		}
		self.entries.push((k, v));
		None
	}
}
impl<K, V> Default for LinearMap<K, V> {
	fn default() -> Self {
		Self::new()
	}
}
impl<K: Clone, V: Clone> Clone for LinearMap<K, V> {
	fn clone(&self) -> Self {
		Self { entries: self.entries.clone() }
	}
}
impl<K: Eq, V> FromIterator<(K, V)> for LinearMap<K, V> {
	fn from_iter<T: IntoIterator<Item = (K, V)>>(iter: T) -> Self {
		let mut m = Self::new();
		for (k, v) in iter {
			m.insert(k, v);
		}
		m
	}
}

/// Stub for `alloc::fmt::format`: error *text* is outside every claim (error presence is not).
pub(crate) fn stub_format(_args: std::fmt::Arguments<'_>) -> String {
	String::new()
}

/// `enum_node!(e = "ns.e", Some(2); ["a", "b"])` declares `e: &'static SchemaNode<'static>` backed by
/// locals of the calling harness (never dropped).
macro_rules! enum_node {
	($id:ident = $fq:expr, $delim:expr; [$($sym:expr),+]) => {
		let mut __syms = std::mem::ManuallyDrop::new([$(crate::schema::verif::sstring($sym)),+]);
		let mut __i = 0usize;
		let mut __lk = std::mem::ManuallyDrop::new([$((crate::schema::verif::sstring($sym), {
			let k = __i;
			__i += 1;
			k
		})),+]);
		let __n = __syms.len();
		let __node = std::mem::ManuallyDrop::new(crate::schema::self_referential::SchemaNode::Enum(
			crate::schema::self_referential::Enum {
				// SAFETY (verification only): backing arrays outlive every use and nothing is dropped or grown
				symbols: unsafe { Vec::from_raw_parts(__syms.as_mut_ptr(), __n, __n) },
				name: crate::schema::verif::name($fq, $delim),
				per_name_lookup: crate::verif::LinearMap::from_vec(unsafe {
					Vec::from_raw_parts(__lk.as_mut_ptr(), __n, __n)
				}),
			},
		));
		let $id: &'static crate::schema::self_referential::SchemaNode<'static> =
			unsafe { std::mem::transmute(&*__node) };
	};
}
pub(crate) use enum_node;

/// `record_node!(r = "r", None; [("a", node_a), ("b", node_b)])`
macro_rules! record_node {
	($id:ident = $fq:expr, $delim:expr; [$(($fname:expr, $fnode:expr)),+]) => {
		let mut __fields = std::mem::ManuallyDrop::new([$(crate::schema::self_referential::RecordField {
			name: crate::schema::verif::sstring($fname),
			schema: crate::schema::verif::nref($fnode),
		}),+]);
		let mut __i = 0usize;
		let mut __lk = std::mem::ManuallyDrop::new([$((crate::schema::verif::sstring($fname), {
			let k = __i;
			__i += 1;
			k
		})),+]);
		let __n = __fields.len();
		let __node = std::mem::ManuallyDrop::new(crate::schema::self_referential::SchemaNode::Record(
			crate::schema::self_referential::Record {
				fields: unsafe { Vec::from_raw_parts(__fields.as_mut_ptr(), __n, __n) },
				name: crate::schema::verif::name($fq, $delim),
				per_name_lookup: crate::verif::LinearMap::from_vec(unsafe {
					Vec::from_raw_parts(__lk.as_mut_ptr(), __n, __n)
				}),
			},
		));
		let $id: &'static crate::schema::self_referential::SchemaNode<'static> =
			unsafe { std::mem::transmute(&*__node) };
	};
}
pub(crate) use record_node;

/// `union_node!(u = [node0, node1])`: the lookup table is computed by the REAL
/// `PerTypeLookup::new` (exactly what freezing a schema does).
macro_rules! union_node {
	($id:ident = [$($v:expr),+]) => {
		let mut __vars = std::mem::ManuallyDrop::new([$(crate::schema::verif::nref($v)),+]);
		let __n = __vars.len();
		let __lookup = crate::schema::verif::per_type_lookup_new(&__vars[..]);
		let __node = std::mem::ManuallyDrop::new(crate::schema::self_referential::SchemaNode::Union(
			crate::schema::self_referential::Union {
				variants: unsafe { Vec::from_raw_parts(__vars.as_mut_ptr(), __n, __n) },
				per_type_lookup: __lookup,
			},
		));
		let $id: &'static crate::schema::self_referential::SchemaNode<'static> =
			unsafe { std::mem::transmute(&*__node) };
	};
}
pub(crate) use union_node;

/// `stack_node!(n = SchemaNode::Array(nref(&LONG)))`: any node whose fields are read by the code under
/// test must be a stack local (typed struct), not a `static` (see schema_nodes.rs).
macro_rules! stack_node {
	($id:ident = $e:expr) => {
		let __n = std::mem::ManuallyDrop::new($e);
		let $id: &'static crate::schema::self_referential::SchemaNode<'static> =
			unsafe { std::mem::transmute(&*__n) };
	};
}
pub(crate) use stack_node;

/// Model of `core::str::from_utf8` used where UTF-8 validation itself is not the subject (std's
/// word-at-a-time validator costs minutes per harness): same verdict as the reference validator.
pub(crate) fn stub_from_utf8(v: &[u8]) -> Result<&str, std::str::Utf8Error> {
	if spec::utf8_valid(v) {
		// SAFETY: validated by the reference validator
		Ok(unsafe { std::str::from_utf8_unchecked(v) })
	} else {
		// SAFETY (verification only): all-zero is a valid Utf8Error {valid_up_to: 0, error_len: None}; its
		// content only feeds error text, which is outside every claim
		Err(unsafe { std::mem::zeroed() })
	}
}

/// union node for DEserializer harnesses: the serializer-side lookup table is not consulted when
/// decoding, so it is left as the placeholder (no 20-slot table construction to unwind).
macro_rules! union_node_de {
	($id:ident = [$($v:expr),+]) => {
		let mut __vars = std::mem::ManuallyDrop::new([$(crate::schema::verif::nref($v)),+]);
		let __n = __vars.len();
		let __node = std::mem::ManuallyDrop::new(crate::schema::self_referential::SchemaNode::Union(
			crate::schema::self_referential::Union {
				variants: unsafe { Vec::from_raw_parts(__vars.as_mut_ptr(), __n, __n) },
				per_type_lookup: crate::schema::verif::per_type_lookup_placeholder(),
			},
		));
		let $id: &'static crate::schema::self_referential::SchemaNode<'static> =
			unsafe { std::mem::transmute(&*__node) };
	};
}
pub(crate) use union_node_de;

/// Stub for `rust_decimal::Decimal::try_from_i128_with_scale` in harnesses whose schema contains no
/// decimal read through rust_decimal: when a node pointer is symbolic (union branch chosen by the
/// input) CBMC explores the decimal arms although they are infeasible; the stub makes that cheap and
/// FAILS the harness if the path is feasible after all (so it cannot hide anything).
pub(crate) fn stub_no_rust_decimal(_num: i128, _scale: u32) -> Result<rust_decimal::Decimal, rust_decimal::Error> {
	assert!(false, "verif: rust_decimal path reached in a harness that declared it unreachable");
	Err(rust_decimal::Error::ExceedsMaximumPossibleValue)
}

/// union ["null","long"] with the hand-written lookup table (see union_lookup.rs)
macro_rules! union_null_long {
	($id:ident) => {
		let mut __vars = std::mem::ManuallyDrop::new([
			crate::schema::verif::nref(&crate::schema::verif::NULL),
			crate::schema::verif::nref(&crate::schema::verif::LONG),
		]);
		let __lookup = crate::schema::verif::lookup_null_long(__vars[0], __vars[1]);
		let __node = std::mem::ManuallyDrop::new(crate::schema::self_referential::SchemaNode::Union(
			crate::schema::self_referential::Union {
				variants: unsafe { Vec::from_raw_parts(__vars.as_mut_ptr(), 2, 2) },
				per_type_lookup: __lookup,
			},
		));
		let $id: &'static crate::schema::self_referential::SchemaNode<'static> =
			unsafe { std::mem::transmute(&*__node) };
	};
}
pub(crate) use union_null_long;

/// Model of `std::io::copy` into a sink (std's version zero-initialises an 8 KiB stack buffer: 8192 loop
/// iterations per call, out of reach): read until EOF in 4-byte pieces, return the number of bytes seen.
/// Trusted: std::io::copy transfers every byte the reader yields and reports the count.
pub(crate) fn stub_io_copy<R: std::io::Read + ?Sized, W: std::io::Write + ?Sized>(r: &mut R, w: &mut W) -> std::io::Result<u64> {
	let mut total = 0u64;
	let mut buf = [0u8; 4];
	loop {
		let n = r.read(&mut buf)?;
		if n == 0 {
			return Ok(total);
		}
		w.write_all(&buf[..n])?;
		total += n as u64;
	}
}
