// Root of the verification harness code, mounted as `crate::verif` inside serde_avro_fast
// under cfg(kani) (see /verif/DESIGN.md). Shared helpers only.

pub(crate) mod spec {
	include!(concat!(env!("SAF_VERIF"), "/spec.rs"));
}
pub(crate) mod targets {
	include!(concat!(env!("SAF_VERIF"), "/targets.rs"));
}
pub(crate) mod io {
	include!(concat!(env!("SAF_VERIF"), "/io.rs"));
}

/// Environment model of `std::collections::HashMap` used for the three name-lookup tables of the
/// frozen schema under verification: association list + linear scan. Assumption recorded in
/// evidence: "std's HashMap is a correct map".
pub(crate) struct LinearMap<K, V> {
	pub(crate) entries: Vec<(K, V)>,
}
impl<K, V> LinearMap<K, V> {
	pub(crate) const fn from_vec(entries: Vec<(K, V)>) -> Self {
		Self { entries }
	}
	pub(crate) fn new() -> Self {
		Self { entries: Vec::new() }
	}
	pub(crate) fn len(&self) -> usize {
		self.entries.len()
	}
}
impl<K: Eq, V> LinearMap<K, V> {
	pub(crate) fn get<Q: ?Sized + Eq>(&self, k: &Q) -> Option<&V>
	where
		K: std::borrow::Borrow<Q>,
	{
		let mut i = 0;
		while i < self.entries.len() {
			if self.entries[i].0.borrow() == k {
				return Some(&self.entries[i].1);
			}
			i += 1;
		}
		None
	}
	pub(crate) fn insert(&mut self, k: K, v: V) -> Option<V> {
		let mut i = 0;
		while i < self.entries.len() {
			if self.entries[i].0 == k {
				return Some(std::mem::replace(&mut self.entries[i].1, v));
			}
			i += 1;
		}
		self.entries.push((k, v));
		None
	}
}
impl<K, V> Default for LinearMap<K, V> {
	fn default() -> Self {
		Self::new()
	}
}
impl<K: Clone, V: Clone> Clone for LinearMap<K, V> {
	fn clone(&self) -> Self {
		Self { entries: self.entries.clone() }
	}
}
impl<K: Eq, V> FromIterator<(K, V)> for LinearMap<K, V> {
	fn from_iter<T: IntoIterator<Item = (K, V)>>(iter: T) -> Self {
		let mut m = Self::new();
		for (k, v) in iter {
			m.insert(k, v);
		}
		m
	}
}

/// Stub for `alloc::fmt::format`: error *text* is outside every claim (error presence is not).
pub(crate) fn stub_format(_args: std::fmt::Arguments<'_>) -> String {
	String::new()
}

/// `enum_node!(e = "ns.e", Some(2); ["a", "b"])` declares `e: &'static SchemaNode<'static>` backed by
/// locals of the calling harness (never dropped).
macro_rules! enum_node {
	($id:ident = $fq:expr, $delim:expr; [$($sym:expr),+]) => {
		let mut __syms = std::mem::ManuallyDrop::new([$(crate::schema::verif::sstring($sym)),+]);
		let mut __i = 0usize;
		let mut __lk = std::mem::ManuallyDrop::new([$((crate::schema::verif::sstring($sym), {
			let k = __i;
			__i += 1;
			k
		})),+]);
		let __n = __syms.len();
		let __node = std::mem::ManuallyDrop::new(crate::schema::self_referential::SchemaNode::Enum(
			crate::schema::self_referential::Enum {
				// SAFETY (verification only): backing arrays outlive every use and nothing is dropped or grown
				symbols: unsafe { Vec::from_raw_parts(__syms.as_mut_ptr(), __n, __n) },
				name: crate::schema::verif::name($fq, $delim),
				per_name_lookup: crate::verif::LinearMap::from_vec(unsafe {
					Vec::from_raw_parts(__lk.as_mut_ptr(), __n, __n)
				}),
			},
		));
		let $id: &'static crate::schema::self_referential::SchemaNode<'static> =
			unsafe { std::mem::transmute(&*__node) };
	};
}
pub(crate) use enum_node;

/// `record_node!(r = "r", None; [("a", node_a), ("b", node_b)])`
macro_rules! record_node {
	($id:ident = $fq:expr, $delim:expr; [$(($fname:expr, $fnode:expr)),+]) => {
		let mut __fields = std::mem::ManuallyDrop::new([$(crate::schema::self_referential::RecordField {
			name: crate::schema::verif::sstring($fname),
			schema: crate::schema::verif::nref($fnode),
		}),+]);
		let mut __i = 0usize;
		let mut __lk = std::mem::ManuallyDrop::new([$((crate::schema::verif::sstring($fname), {
			let k = __i;
			__i += 1;
			k
		})),+]);
		let __n = __fields.len();
		let __node = std::mem::ManuallyDrop::new(crate::schema::self_referential::SchemaNode::Record(
			crate::schema::self_referential::Record {
				fields: unsafe { Vec::from_raw_parts(__fields.as_mut_ptr(), __n, __n) },
				name: crate::schema::verif::name($fq, $delim),
				per_name_lookup: crate::verif::LinearMap::from_vec(unsafe {
					Vec::from_raw_parts(__lk.as_mut_ptr(), __n, __n)
				}),
			},
		));
		let $id: &'static crate::schema::self_referential::SchemaNode<'static> =
			unsafe { std::mem::transmute(&*__node) };
	};
}
pub(crate) use record_node;

/// `union_node!(u = [node0, node1])`: the lookup table is computed by the REAL
/// `PerTypeLookup::new` (exactly what freezing a schema does).
macro_rules! union_node {
	($id:ident = [$($v:expr),+]) => {
		let mut __vars = std::mem::ManuallyDrop::new([$(crate::schema::verif::nref($v)),+]);
		let __n = __vars.len();
		let __lookup = crate::schema::verif::per_type_lookup_new(&__vars[..]);
		let __node = std::mem::ManuallyDrop::new(crate::schema::self_referential::SchemaNode::Union(
			crate::schema::self_referential::Union {
				variants: unsafe { Vec::from_raw_parts(__vars.as_mut_ptr(), __n, __n) },
				per_type_lookup: __lookup,
			},
		));
		let $id: &'static crate::schema::self_referential::SchemaNode<'static> =
			unsafe { std::mem::transmute(&*__node) };
	};
}
pub(crate) use union_node;
