// Root of the verification harness code, mounted as `crate::verif` inside serde_avro_fast
// under cfg(kani) (see /verif/DESIGN.md). Shared helpers only.

pub(crate) mod spec {
	include!(concat!(env!("SAF_VERIF"), "/spec.rs"));
}
pub(crate) mod io {
	include!(concat!(env!("SAF_VERIF"), "/io.rs"));
}

/// Environment model of `std::collections::HashMap` used for the three name-lookup tables of the
/// frozen schema under verification: association list + linear scan. Assumption recorded in
/// evidence: "std's HashMap is a correct map".
pub(crate) struct LinearMap<K, V> {
	pub(crate) entries: Vec<(K, V)>,
}
impl<K, V> LinearMap<K, V> {
	pub(crate) const fn from_vec(entries: Vec<(K, V)>) -> Self {
		Self { entries }
	}
	pub(crate) fn new() -> Self {
		Self { entries: Vec::new() }
	}
	pub(crate) fn len(&self) -> usize {
		self.entries.len()
	}
}
impl<K: Eq, V> LinearMap<K, V> {
	pub(crate) fn get<Q: ?Sized + Eq>(&self, k: &Q) -> Option<&V>
	where
		K: std::borrow::Borrow<Q>,
	{
		let mut i = 0;
		while i < self.entries.len() {
			if self.entries[i].0.borrow() == k {
				return Some(&self.entries[i].1);
			}
			i += 1;
		}
		None
	}
	pub(crate) fn insert(&mut self, k: K, v: V) -> Option<V> {
		let mut i = 0;
		while i < self.entries.len() {
			if self.entries[i].0 == k {
				return Some(std::mem::replace(&mut self.entries[i].1, v));
			}
			i += 1;
		}
		self.entries.push((k, v));
		None
	}
}
impl<K, V> Default for LinearMap<K, V> {
	fn default() -> Self {
		Self::new()
	}
}
impl<K: Clone, V: Clone> Clone for LinearMap<K, V> {
	fn clone(&self) -> Self {
		Self { entries: self.entries.clone() }
	}
}
impl<K: Eq, V> FromIterator<(K, V)> for LinearMap<K, V> {
	fn from_iter<T: IntoIterator<Item = (K, V)>>(iter: T) -> Self {
		let mut m = Self::new();
		for (k, v) in iter {
			m.insert(k, v);
		}
		m
	}
}

/// Stub for `alloc::fmt::format`: error *text* is outside every claim (error presence is not).
pub(crate) fn stub_format(_args: std::fmt::Arguments<'_>) -> String {
	String::new()
}
