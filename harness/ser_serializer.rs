// Mounted in serde_avro_fast::ser::serializer — datum serializer harnesses (C01 C02 C13 C14)
use super::*;
use crate::schema::verif as nodes;
use crate::verif::{io::*, spec};

/// Run the real serializer for `v` against the constant node, into an infallible fixed buffer.
pub(crate) fn ser_to<const N: usize, T: Serialize + ?Sized>(
	node: &'static SchemaNode<'static>,
	v: &T,
	slow_seq: bool,
) -> (Result<(), SerError>, FixedBuf<N>) {
	let mut config = SerializerConfig::new_with_optional_schema(None);
	if slow_seq {
		config.allow_slow_sequence_to_bytes();
	}
	let mut state = SerializerState::from_writer(FixedBuf::<N>::new(), &mut config);
	let r = v.serialize(state.serializer_overriding_schema_root(node));
	let w = state.into_writer();
	std::mem::forget(config);
	(r, w)
}

pub(crate) fn bytes_eq(a: &[u8], b: &[u8]) -> bool {
	if a.len() != b.len() {
		return false;
	}
	let mut i = 0;
	while i < a.len() {
		if a[i] != b[i] {
			return false;
		}
		i += 1;
	}
	true
}

pub(crate) trait IntSrc: Serialize + Copy {
	fn to_i128(self) -> Option<i128>;
}
macro_rules! int_src {
	($($t:ty)*) => {$(
		impl IntSrc for $t {
			fn to_i128(self) -> Option<i128> {
				i128::try_from(self).ok()
			}
		}
	)*};
}
int_src!(i8 i16 i32 i64 i128 u8 u16 u32 u64 u128);

#[derive(Clone, Copy)]
pub(crate) enum IntKind {
	Int,
	Long,
	DecBytes(u32),
	DecFixed(usize, u32),
	Enum(i128),
}

const fn pow10(s: u32) -> i128 {
	let mut r = 1i128;
	let mut i = 0;
	while i < s {
		r *= 10;
		i += 1;
	}
	r
}

/// One cell of the (integer presentation x schema kind) matrix.
/// Ok  => bytes are exactly the specification's encoding of the same logical value
/// value not representable under the schema => Err
/// representable => Ok (the C01 half: conforming values serialize)
pub(crate) fn cell_int<T: IntSrc>(v: T, node: &'static SchemaNode<'static>, kind: IntKind) {
	let (r, out) = ser_to::<40, T>(node, &v, false);
	let exact = v.to_i128();
	let got = out.bytes();
	let mut want = [0u8; 10];
	match kind {
		IntKind::Int | IntKind::Long => {
			let fits = match (exact, kind) {
				(Some(x), IntKind::Int) => x >= i32::MIN as i128 && x <= i32::MAX as i128,
				(Some(x), _) => x >= i64::MIN as i128 && x <= i64::MAX as i128,
				(None, _) => false,
			};
			kani::cover!(fits && r.is_ok());
			if r.is_ok() {
				assert!(fits, "c02_int: Ok for an integer outside the range of the Avro type");
				let n = spec::put_long(exact.unwrap() as i64, &mut want, 0);
				assert!(bytes_eq(got, &want[..n]), "c02_int: bytes differ from the zig-zag varint of the value");
			} else {
				assert!(!fits, "c02_int: representable integer rejected");
			}
		}
		IntKind::Enum(k) => {
			let fits = match exact {
				Some(x) => x >= 0 && x < k,
				None => false,
			};
			kani::cover!(fits && r.is_ok());
			if r.is_ok() {
				assert!(fits, "c02_int_enum: Ok for an enum index that is not in the schema");
				let n = spec::put_long(exact.unwrap() as i64, &mut want, 0);
				assert!(bytes_eq(got, &want[..n]), "c02_int_enum: bytes differ from the varint of the index");
			} else {
				assert!(!fits, "c02_int_enum: valid enum index rejected");
			}
		}
		IntKind::DecBytes(scale) => {
			let unscaled = match exact {
				Some(x) => x.checked_mul(pow10(scale)),
				None => None,
			};
			kani::cover!(r.is_ok());
			if r.is_ok() {
				assert!(unscaled.is_some(), "c02_int_dec: Ok for a value whose unscaled form overflows 16 bytes");
				// length prefix then two's complement big-endian
				let (l, ln) = match spec::get_uvarint(got) {
					Some(x) => x,
					None => {
						assert!(false, "c02_int_dec: no length prefix");
						return;
					}
				};
				let l = spec::unzigzag64(l);
				assert!(l >= 0 && l <= 16 && ln + l as usize == got.len(), "c02_int_dec: length prefix does not match payload");
				let payload = &got[ln..];
				assert!(spec::twos_complement(payload) == unscaled.unwrap(), "c02_int_dec: decimal(bytes) payload decodes to a different number");
			} else {
				assert!(unscaled.is_none(), "c02_int_dec: representable decimal rejected");
			}
		}
		IntKind::DecFixed(size, scale) => {
			let unscaled = match exact {
				Some(x) => x.checked_mul(pow10(scale)),
				None => None,
			};
			let fits = match unscaled {
				Some(u) => size <= 16 && spec::fits_twos_complement(u, size),
				None => false,
			};
			kani::cover!(r.is_ok() || size > 16);
			if r.is_ok() {
				assert!(fits, "c02_int_decfixed: Ok for a number that does not fit the fixed size");
				assert!(got.len() == size, "c02_int_decfixed: wrong number of bytes for fixed");
				assert!(spec::twos_complement(got) == unscaled.unwrap(), "c02_int_decfixed: decimal(fixed) bytes decode to a different number");
			} else {
				assert!(!fits, "c02_int_decfixed: representable decimal rejected");
			}
		}
	}
	std::mem::forget(r);
}

// ---- generated: integer presentation x schema kind cell matrix (C02, and the 'succeeds' half of C01) ----

// @harness props=C02 also=C01 tier=thorough timeout=900
// @bound every value of i8 presented through serialize_i8 against node int (IntKind::Int); output <= 40 bytes; unwind 18 >= 16 decimal bytes + 2
#[kani::proof]
#[kani::unwind(18)]
#[kani::stub(alloc::fmt::format, crate::verif::stub_format)]
fn c02_int_i8_int() {
	cell_int::<i8>(kani::any(), &nodes::INT, IntKind::Int);
	kani::cover!(true, "end of harness reached");
}

// @harness props=C02 also=C01 tier=thorough timeout=900
// @bound every value of i16 presented through serialize_i16 against node int (IntKind::Int); output <= 40 bytes; unwind 18 >= 16 decimal bytes + 2
#[kani::proof]
#[kani::unwind(18)]
#[kani::stub(alloc::fmt::format, crate::verif::stub_format)]
fn c02_int_i16_int() {
	cell_int::<i16>(kani::any(), &nodes::INT, IntKind::Int);
	kani::cover!(true, "end of harness reached");
}

// @harness props=C02,C01 tier=quick timeout=900
// @bound every value of i32 presented through serialize_i32 against node int (IntKind::Int); output <= 40 bytes; unwind 18 >= 16 decimal bytes + 2
#[kani::proof]
#[kani::unwind(18)]
#[kani::stub(alloc::fmt::format, crate::verif::stub_format)]
fn c02_int_i32_int() {
	cell_int::<i32>(kani::any(), &nodes::INT, IntKind::Int);
	kani::cover!(true, "end of harness reached");
}

// @harness props=C02 also=C01 tier=quick timeout=900
// @bound every value of i64 presented through serialize_i64 against node int (IntKind::Int); output <= 40 bytes; unwind 18 >= 16 decimal bytes + 2
#[kani::proof]
#[kani::unwind(18)]
#[kani::stub(alloc::fmt::format, crate::verif::stub_format)]
fn c02_int_i64_int() {
	cell_int::<i64>(kani::any(), &nodes::INT, IntKind::Int);
	kani::cover!(true, "end of harness reached");
}

// @harness props=C02 also=C01 tier=quick timeout=900
// @bound every value of i128 presented through serialize_i128 against node int (IntKind::Int); output <= 40 bytes; unwind 18 >= 16 decimal bytes + 2
#[kani::proof]
#[kani::unwind(18)]
#[kani::stub(alloc::fmt::format, crate::verif::stub_format)]
fn c02_int_i128_int() {
	cell_int::<i128>(kani::any(), &nodes::INT, IntKind::Int);
	kani::cover!(true, "end of harness reached");
}

// @harness props=C02 also=C01 tier=quick timeout=900
// @bound every value of u8 presented through serialize_u8 against node int (IntKind::Int); output <= 40 bytes; unwind 18 >= 16 decimal bytes + 2
#[kani::proof]
#[kani::unwind(18)]
#[kani::stub(alloc::fmt::format, crate::verif::stub_format)]
fn c02_int_u8_int() {
	cell_int::<u8>(kani::any(), &nodes::INT, IntKind::Int);
	kani::cover!(true, "end of harness reached");
}

// @harness props=C02 also=C01 tier=thorough timeout=900
// @bound every value of u16 presented through serialize_u16 against node int (IntKind::Int); output <= 40 bytes; unwind 18 >= 16 decimal bytes + 2
#[kani::proof]
#[kani::unwind(18)]
#[kani::stub(alloc::fmt::format, crate::verif::stub_format)]
fn c02_int_u16_int() {
	cell_int::<u16>(kani::any(), &nodes::INT, IntKind::Int);
	kani::cover!(true, "end of harness reached");
}

// @harness props=C02 also=C01 tier=thorough timeout=900
// @bound every value of u32 presented through serialize_u32 against node int (IntKind::Int); output <= 40 bytes; unwind 18 >= 16 decimal bytes + 2
#[kani::proof]
#[kani::unwind(18)]
#[kani::stub(alloc::fmt::format, crate::verif::stub_format)]
fn c02_int_u32_int() {
	cell_int::<u32>(kani::any(), &nodes::INT, IntKind::Int);
	kani::cover!(true, "end of harness reached");
}

// @harness props=C02 also=C01 tier=quick timeout=900
// @bound every value of u64 presented through serialize_u64 against node int (IntKind::Int); output <= 40 bytes; unwind 18 >= 16 decimal bytes + 2
#[kani::proof]
#[kani::unwind(18)]
#[kani::stub(alloc::fmt::format, crate::verif::stub_format)]
fn c02_int_u64_int() {
	cell_int::<u64>(kani::any(), &nodes::INT, IntKind::Int);
	kani::cover!(true, "end of harness reached");
}

// @harness props=C02 also=C01 tier=thorough timeout=900
// @bound every value of u128 presented through serialize_u128 against node int (IntKind::Int); output <= 40 bytes; unwind 18 >= 16 decimal bytes + 2
#[kani::proof]
#[kani::unwind(18)]
#[kani::stub(alloc::fmt::format, crate::verif::stub_format)]
fn c02_int_u128_int() {
	cell_int::<u128>(kani::any(), &nodes::INT, IntKind::Int);
	kani::cover!(true, "end of harness reached");
}

// @harness props=C02 also=C01 tier=thorough timeout=900
// @bound every value of i8 presented through serialize_i8 against node long (IntKind::Long); output <= 40 bytes; unwind 18 >= 16 decimal bytes + 2
#[kani::proof]
#[kani::unwind(18)]
#[kani::stub(alloc::fmt::format, crate::verif::stub_format)]
fn c02_int_i8_long() {
	cell_int::<i8>(kani::any(), &nodes::LONG, IntKind::Long);
	kani::cover!(true, "end of harness reached");
}

// @harness props=C02 also=C01 tier=thorough timeout=900
// @bound every value of i16 presented through serialize_i16 against node long (IntKind::Long); output <= 40 bytes; unwind 18 >= 16 decimal bytes + 2
#[kani::proof]
#[kani::unwind(18)]
#[kani::stub(alloc::fmt::format, crate::verif::stub_format)]
fn c02_int_i16_long() {
	cell_int::<i16>(kani::any(), &nodes::LONG, IntKind::Long);
	kani::cover!(true, "end of harness reached");
}

// @harness props=C02 also=C01 tier=quick timeout=900
// @bound every value of i32 presented through serialize_i32 against node long (IntKind::Long); output <= 40 bytes; unwind 18 >= 16 decimal bytes + 2
#[kani::proof]
#[kani::unwind(18)]
#[kani::stub(alloc::fmt::format, crate::verif::stub_format)]
fn c02_int_i32_long() {
	cell_int::<i32>(kani::any(), &nodes::LONG, IntKind::Long);
	kani::cover!(true, "end of harness reached");
}

// @harness props=C02,C01 tier=quick timeout=900
// @bound every value of i64 presented through serialize_i64 against node long (IntKind::Long); output <= 40 bytes; unwind 18 >= 16 decimal bytes + 2
#[kani::proof]
#[kani::unwind(18)]
#[kani::stub(alloc::fmt::format, crate::verif::stub_format)]
fn c02_int_i64_long() {
	cell_int::<i64>(kani::any(), &nodes::LONG, IntKind::Long);
	kani::cover!(true, "end of harness reached");
}

// @harness props=C02 also=C01 tier=quick timeout=900
// @bound every value of i128 presented through serialize_i128 against node long (IntKind::Long); output <= 40 bytes; unwind 18 >= 16 decimal bytes + 2
#[kani::proof]
#[kani::unwind(18)]
#[kani::stub(alloc::fmt::format, crate::verif::stub_format)]
fn c02_int_i128_long() {
	cell_int::<i128>(kani::any(), &nodes::LONG, IntKind::Long);
	kani::cover!(true, "end of harness reached");
}

// @harness props=C02 also=C01 tier=quick timeout=900
// @bound every value of u8 presented through serialize_u8 against node long (IntKind::Long); output <= 40 bytes; unwind 18 >= 16 decimal bytes + 2
#[kani::proof]
#[kani::unwind(18)]
#[kani::stub(alloc::fmt::format, crate::verif::stub_format)]
fn c02_int_u8_long() {
	cell_int::<u8>(kani::any(), &nodes::LONG, IntKind::Long);
	kani::cover!(true, "end of harness reached");
}

// @harness props=C02 also=C01 tier=thorough timeout=900
// @bound every value of u16 presented through serialize_u16 against node long (IntKind::Long); output <= 40 bytes; unwind 18 >= 16 decimal bytes + 2
#[kani::proof]
#[kani::unwind(18)]
#[kani::stub(alloc::fmt::format, crate::verif::stub_format)]
fn c02_int_u16_long() {
	cell_int::<u16>(kani::any(), &nodes::LONG, IntKind::Long);
	kani::cover!(true, "end of harness reached");
}

// @harness props=C02 also=C01 tier=thorough timeout=900
// @bound every value of u32 presented through serialize_u32 against node long (IntKind::Long); output <= 40 bytes; unwind 18 >= 16 decimal bytes + 2
#[kani::proof]
#[kani::unwind(18)]
#[kani::stub(alloc::fmt::format, crate::verif::stub_format)]
fn c02_int_u32_long() {
	cell_int::<u32>(kani::any(), &nodes::LONG, IntKind::Long);
	kani::cover!(true, "end of harness reached");
}

// @harness props=C02 also=C01 tier=quick timeout=900
// @bound every value of u64 presented through serialize_u64 against node long (IntKind::Long); output <= 40 bytes; unwind 18 >= 16 decimal bytes + 2
#[kani::proof]
#[kani::unwind(18)]
#[kani::stub(alloc::fmt::format, crate::verif::stub_format)]
fn c02_int_u64_long() {
	cell_int::<u64>(kani::any(), &nodes::LONG, IntKind::Long);
	kani::cover!(true, "end of harness reached");
}

// @harness props=C02 also=C01 tier=thorough timeout=900
// @bound every value of u128 presented through serialize_u128 against node long (IntKind::Long); output <= 40 bytes; unwind 18 >= 16 decimal bytes + 2
#[kani::proof]
#[kani::unwind(18)]
#[kani::stub(alloc::fmt::format, crate::verif::stub_format)]
fn c02_int_u128_long() {
	cell_int::<u128>(kani::any(), &nodes::LONG, IntKind::Long);
	kani::cover!(true, "end of harness reached");
}

// @harness props=C02 also=C01 tier=thorough timeout=900
// @bound every value of i64 presented through serialize_i64 against node date (IntKind::Int); output <= 40 bytes; unwind 18 >= 16 decimal bytes + 2
#[kani::proof]
#[kani::unwind(18)]
#[kani::stub(alloc::fmt::format, crate::verif::stub_format)]
fn c02_int_i64_date() {
	cell_int::<i64>(kani::any(), &nodes::DATE, IntKind::Int);
	kani::cover!(true, "end of harness reached");
}

// @harness props=C02 also=C01 tier=thorough timeout=900
// @bound every value of u32 presented through serialize_u32 against node date (IntKind::Int); output <= 40 bytes; unwind 18 >= 16 decimal bytes + 2
#[kani::proof]
#[kani::unwind(18)]
#[kani::stub(alloc::fmt::format, crate::verif::stub_format)]
fn c02_int_u32_date() {
	cell_int::<u32>(kani::any(), &nodes::DATE, IntKind::Int);
	kani::cover!(true, "end of harness reached");
}

// @harness props=C02 also=C01 tier=thorough timeout=900
// @bound every value of i64 presented through serialize_i64 against node time_millis (IntKind::Int); output <= 40 bytes; unwind 18 >= 16 decimal bytes + 2
#[kani::proof]
#[kani::unwind(18)]
#[kani::stub(alloc::fmt::format, crate::verif::stub_format)]
fn c02_int_i64_time_millis() {
	cell_int::<i64>(kani::any(), &nodes::TIME_MILLIS, IntKind::Int);
	kani::cover!(true, "end of harness reached");
}

// @harness props=C02 also=C01 tier=thorough timeout=900
// @bound every value of u32 presented through serialize_u32 against node time_millis (IntKind::Int); output <= 40 bytes; unwind 18 >= 16 decimal bytes + 2
#[kani::proof]
#[kani::unwind(18)]
#[kani::stub(alloc::fmt::format, crate::verif::stub_format)]
fn c02_int_u32_time_millis() {
	cell_int::<u32>(kani::any(), &nodes::TIME_MILLIS, IntKind::Int);
	kani::cover!(true, "end of harness reached");
}

// @harness props=C02 also=C01 tier=thorough timeout=900
// @bound every value of i64 presented through serialize_i64 against node time_micros (IntKind::Long); output <= 40 bytes; unwind 18 >= 16 decimal bytes + 2
#[kani::proof]
#[kani::unwind(18)]
#[kani::stub(alloc::fmt::format, crate::verif::stub_format)]
fn c02_int_i64_time_micros() {
	cell_int::<i64>(kani::any(), &nodes::TIME_MICROS, IntKind::Long);
	kani::cover!(true, "end of harness reached");
}

// @harness props=C02 also=C01 tier=thorough timeout=900
// @bound every value of u32 presented through serialize_u32 against node time_micros (IntKind::Long); output <= 40 bytes; unwind 18 >= 16 decimal bytes + 2
#[kani::proof]
#[kani::unwind(18)]
#[kani::stub(alloc::fmt::format, crate::verif::stub_format)]
fn c02_int_u32_time_micros() {
	cell_int::<u32>(kani::any(), &nodes::TIME_MICROS, IntKind::Long);
	kani::cover!(true, "end of harness reached");
}

// @harness props=C02 also=C01 tier=thorough timeout=900
// @bound every value of i64 presented through serialize_i64 against node ts_millis (IntKind::Long); output <= 40 bytes; unwind 18 >= 16 decimal bytes + 2
#[kani::proof]
#[kani::unwind(18)]
#[kani::stub(alloc::fmt::format, crate::verif::stub_format)]
fn c02_int_i64_ts_millis() {
	cell_int::<i64>(kani::any(), &nodes::TS_MILLIS, IntKind::Long);
	kani::cover!(true, "end of harness reached");
}

// @harness props=C02 also=C01 tier=thorough timeout=900
// @bound every value of u32 presented through serialize_u32 against node ts_millis (IntKind::Long); output <= 40 bytes; unwind 18 >= 16 decimal bytes + 2
#[kani::proof]
#[kani::unwind(18)]
#[kani::stub(alloc::fmt::format, crate::verif::stub_format)]
fn c02_int_u32_ts_millis() {
	cell_int::<u32>(kani::any(), &nodes::TS_MILLIS, IntKind::Long);
	kani::cover!(true, "end of harness reached");
}

// @harness props=C02 also=C01 tier=thorough timeout=900
// @bound every value of i64 presented through serialize_i64 against node ts_micros (IntKind::Long); output <= 40 bytes; unwind 18 >= 16 decimal bytes + 2
#[kani::proof]
#[kani::unwind(18)]
#[kani::stub(alloc::fmt::format, crate::verif::stub_format)]
fn c02_int_i64_ts_micros() {
	cell_int::<i64>(kani::any(), &nodes::TS_MICROS, IntKind::Long);
	kani::cover!(true, "end of harness reached");
}

// @harness props=C02 also=C01 tier=thorough timeout=900
// @bound every value of u32 presented through serialize_u32 against node ts_micros (IntKind::Long); output <= 40 bytes; unwind 18 >= 16 decimal bytes + 2
#[kani::proof]
#[kani::unwind(18)]
#[kani::stub(alloc::fmt::format, crate::verif::stub_format)]
fn c02_int_u32_ts_micros() {
	cell_int::<u32>(kani::any(), &nodes::TS_MICROS, IntKind::Long);
	kani::cover!(true, "end of harness reached");
}

// @harness props=C02 also=C01 tier=thorough timeout=900
// @bound every value of i8 presented through serialize_i8 against node enum2 (IntKind::Enum(2)); output <= 40 bytes; unwind 18 >= 16 decimal bytes + 2
#[kani::proof]
#[kani::unwind(18)]
#[kani::stub(alloc::fmt::format, crate::verif::stub_format)]
fn c02_int_i8_enum2() {
	crate::verif::enum_node!(e = "e", None; ["a", "b"]);
	cell_int::<i8>(kani::any(), e, IntKind::Enum(2));
	kani::cover!(true, "end of harness reached");
}

// @harness props=C02 also=C01 tier=thorough timeout=900
// @bound every value of i16 presented through serialize_i16 against node enum2 (IntKind::Enum(2)); output <= 40 bytes; unwind 18 >= 16 decimal bytes + 2
#[kani::proof]
#[kani::unwind(18)]
#[kani::stub(alloc::fmt::format, crate::verif::stub_format)]
fn c02_int_i16_enum2() {
	crate::verif::enum_node!(e = "e", None; ["a", "b"]);
	cell_int::<i16>(kani::any(), e, IntKind::Enum(2));
	kani::cover!(true, "end of harness reached");
}

// @harness props=C02 also=C01 tier=quick timeout=900
// @bound every value of i32 presented through serialize_i32 against node enum2 (IntKind::Enum(2)); output <= 40 bytes; unwind 18 >= 16 decimal bytes + 2
#[kani::proof]
#[kani::unwind(18)]
#[kani::stub(alloc::fmt::format, crate::verif::stub_format)]
fn c02_int_i32_enum2() {
	crate::verif::enum_node!(e = "e", None; ["a", "b"]);
	cell_int::<i32>(kani::any(), e, IntKind::Enum(2));
	kani::cover!(true, "end of harness reached");
}

// @harness props=C02,C01 tier=quick timeout=900
// @bound every value of i64 presented through serialize_i64 against node enum2 (IntKind::Enum(2)); output <= 40 bytes; unwind 18 >= 16 decimal bytes + 2
#[kani::proof]
#[kani::unwind(18)]
#[kani::stub(alloc::fmt::format, crate::verif::stub_format)]
fn c02_int_i64_enum2() {
	crate::verif::enum_node!(e = "e", None; ["a", "b"]);
	cell_int::<i64>(kani::any(), e, IntKind::Enum(2));
	kani::cover!(true, "end of harness reached");
}

// @harness props=C02 also=C01 tier=quick timeout=900
// @bound every value of i128 presented through serialize_i128 against node enum2 (IntKind::Enum(2)); output <= 40 bytes; unwind 18 >= 16 decimal bytes + 2
#[kani::proof]
#[kani::unwind(18)]
#[kani::stub(alloc::fmt::format, crate::verif::stub_format)]
fn c02_int_i128_enum2() {
	crate::verif::enum_node!(e = "e", None; ["a", "b"]);
	cell_int::<i128>(kani::any(), e, IntKind::Enum(2));
	kani::cover!(true, "end of harness reached");
}

// @harness props=C02 also=C01 tier=quick timeout=900
// @bound every value of u8 presented through serialize_u8 against node enum2 (IntKind::Enum(2)); output <= 40 bytes; unwind 18 >= 16 decimal bytes + 2
#[kani::proof]
#[kani::unwind(18)]
#[kani::stub(alloc::fmt::format, crate::verif::stub_format)]
fn c02_int_u8_enum2() {
	crate::verif::enum_node!(e = "e", None; ["a", "b"]);
	cell_int::<u8>(kani::any(), e, IntKind::Enum(2));
	kani::cover!(true, "end of harness reached");
}

// @harness props=C02 also=C01 tier=thorough timeout=900
// @bound every value of u16 presented through serialize_u16 against node enum2 (IntKind::Enum(2)); output <= 40 bytes; unwind 18 >= 16 decimal bytes + 2
#[kani::proof]
#[kani::unwind(18)]
#[kani::stub(alloc::fmt::format, crate::verif::stub_format)]
fn c02_int_u16_enum2() {
	crate::verif::enum_node!(e = "e", None; ["a", "b"]);
	cell_int::<u16>(kani::any(), e, IntKind::Enum(2));
	kani::cover!(true, "end of harness reached");
}

// @harness props=C02 also=C01 tier=thorough timeout=900
// @bound every value of u32 presented through serialize_u32 against node enum2 (IntKind::Enum(2)); output <= 40 bytes; unwind 18 >= 16 decimal bytes + 2
#[kani::proof]
#[kani::unwind(18)]
#[kani::stub(alloc::fmt::format, crate::verif::stub_format)]
fn c02_int_u32_enum2() {
	crate::verif::enum_node!(e = "e", None; ["a", "b"]);
	cell_int::<u32>(kani::any(), e, IntKind::Enum(2));
	kani::cover!(true, "end of harness reached");
}

// @harness props=C02 also=C01 tier=quick timeout=900
// @bound every value of u64 presented through serialize_u64 against node enum2 (IntKind::Enum(2)); output <= 40 bytes; unwind 18 >= 16 decimal bytes + 2
#[kani::proof]
#[kani::unwind(18)]
#[kani::stub(alloc::fmt::format, crate::verif::stub_format)]
fn c02_int_u64_enum2() {
	crate::verif::enum_node!(e = "e", None; ["a", "b"]);
	cell_int::<u64>(kani::any(), e, IntKind::Enum(2));
	kani::cover!(true, "end of harness reached");
}

// @harness props=C02 also=C01 tier=thorough timeout=900
// @bound every value of u128 presented through serialize_u128 against node enum2 (IntKind::Enum(2)); output <= 40 bytes; unwind 18 >= 16 decimal bytes + 2
#[kani::proof]
#[kani::unwind(18)]
#[kani::stub(alloc::fmt::format, crate::verif::stub_format)]
fn c02_int_u128_enum2() {
	crate::verif::enum_node!(e = "e", None; ["a", "b"]);
	cell_int::<u128>(kani::any(), e, IntKind::Enum(2));
	kani::cover!(true, "end of harness reached");
}

// @harness props=C02 also=C01 tier=thorough timeout=900
// @bound every value of i8 presented through serialize_i8 against node decb0 (IntKind::DecBytes(0)); output <= 40 bytes; unwind 18 >= 16 decimal bytes + 2
#[kani::proof]
#[kani::unwind(18)]
#[kani::stub(alloc::fmt::format, crate::verif::stub_format)]
fn c02_int_i8_decb0() {
	crate::verif::stack_node!(d = nodes::dec_bytes(0));
	cell_int::<i8>(kani::any(), d, IntKind::DecBytes(0));
	kani::cover!(true, "end of harness reached");
}

// @harness props=C02 also=C01 tier=thorough timeout=900
// @bound every value of i16 presented through serialize_i16 against node decb0 (IntKind::DecBytes(0)); output <= 40 bytes; unwind 18 >= 16 decimal bytes + 2
#[kani::proof]
#[kani::unwind(18)]
#[kani::stub(alloc::fmt::format, crate::verif::stub_format)]
fn c02_int_i16_decb0() {
	crate::verif::stack_node!(d = nodes::dec_bytes(0));
	cell_int::<i16>(kani::any(), d, IntKind::DecBytes(0));
	kani::cover!(true, "end of harness reached");
}

// @harness props=C02 also=C01 tier=quick timeout=900
// @bound every value of i32 presented through serialize_i32 against node decb0 (IntKind::DecBytes(0)); output <= 40 bytes; unwind 18 >= 16 decimal bytes + 2
#[kani::proof]
#[kani::unwind(18)]
#[kani::stub(alloc::fmt::format, crate::verif::stub_format)]
fn c02_int_i32_decb0() {
	crate::verif::stack_node!(d = nodes::dec_bytes(0));
	cell_int::<i32>(kani::any(), d, IntKind::DecBytes(0));
	kani::cover!(true, "end of harness reached");
}

// @harness props=C02,C01 tier=quick timeout=900
// @bound every value of i64 presented through serialize_i64 against node decb0 (IntKind::DecBytes(0)); output <= 40 bytes; unwind 18 >= 16 decimal bytes + 2
#[kani::proof]
#[kani::unwind(18)]
#[kani::stub(alloc::fmt::format, crate::verif::stub_format)]
fn c02_int_i64_decb0() {
	crate::verif::stack_node!(d = nodes::dec_bytes(0));
	cell_int::<i64>(kani::any(), d, IntKind::DecBytes(0));
	kani::cover!(true, "end of harness reached");
}

// @harness props=C02 also=C01 tier=quick timeout=900
// @bound every value of i128 presented through serialize_i128 against node decb0 (IntKind::DecBytes(0)); output <= 40 bytes; unwind 18 >= 16 decimal bytes + 2
#[kani::proof]
#[kani::unwind(18)]
#[kani::stub(alloc::fmt::format, crate::verif::stub_format)]
fn c02_int_i128_decb0() {
	crate::verif::stack_node!(d = nodes::dec_bytes(0));
	cell_int::<i128>(kani::any(), d, IntKind::DecBytes(0));
	kani::cover!(true, "end of harness reached");
}

// @harness props=C02 also=C01 tier=quick timeout=900
// @bound every value of u8 presented through serialize_u8 against node decb0 (IntKind::DecBytes(0)); output <= 40 bytes; unwind 18 >= 16 decimal bytes + 2
#[kani::proof]
#[kani::unwind(18)]
#[kani::stub(alloc::fmt::format, crate::verif::stub_format)]
fn c02_int_u8_decb0() {
	crate::verif::stack_node!(d = nodes::dec_bytes(0));
	cell_int::<u8>(kani::any(), d, IntKind::DecBytes(0));
	kani::cover!(true, "end of harness reached");
}

// @harness props=C02 also=C01 tier=thorough timeout=900
// @bound every value of u16 presented through serialize_u16 against node decb0 (IntKind::DecBytes(0)); output <= 40 bytes; unwind 18 >= 16 decimal bytes + 2
#[kani::proof]
#[kani::unwind(18)]
#[kani::stub(alloc::fmt::format, crate::verif::stub_format)]
fn c02_int_u16_decb0() {
	crate::verif::stack_node!(d = nodes::dec_bytes(0));
	cell_int::<u16>(kani::any(), d, IntKind::DecBytes(0));
	kani::cover!(true, "end of harness reached");
}

// @harness props=C02 also=C01 tier=thorough timeout=900
// @bound every value of u32 presented through serialize_u32 against node decb0 (IntKind::DecBytes(0)); output <= 40 bytes; unwind 18 >= 16 decimal bytes + 2
#[kani::proof]
#[kani::unwind(18)]
#[kani::stub(alloc::fmt::format, crate::verif::stub_format)]
fn c02_int_u32_decb0() {
	crate::verif::stack_node!(d = nodes::dec_bytes(0));
	cell_int::<u32>(kani::any(), d, IntKind::DecBytes(0));
	kani::cover!(true, "end of harness reached");
}

// @harness props=C02 also=C01 tier=quick timeout=900
// @bound every value of u64 presented through serialize_u64 against node decb0 (IntKind::DecBytes(0)); output <= 40 bytes; unwind 18 >= 16 decimal bytes + 2
#[kani::proof]
#[kani::unwind(18)]
#[kani::stub(alloc::fmt::format, crate::verif::stub_format)]
fn c02_int_u64_decb0() {
	crate::verif::stack_node!(d = nodes::dec_bytes(0));
	cell_int::<u64>(kani::any(), d, IntKind::DecBytes(0));
	kani::cover!(true, "end of harness reached");
}

// @harness props=C02 also=C01 tier=thorough timeout=900
// @bound every value of u128 presented through serialize_u128 against node decb0 (IntKind::DecBytes(0)); output <= 40 bytes; unwind 18 >= 16 decimal bytes + 2
#[kani::proof]
#[kani::unwind(18)]
#[kani::stub(alloc::fmt::format, crate::verif::stub_format)]
fn c02_int_u128_decb0() {
	crate::verif::stack_node!(d = nodes::dec_bytes(0));
	cell_int::<u128>(kani::any(), d, IntKind::DecBytes(0));
	kani::cover!(true, "end of harness reached");
}

// @harness props=C02 also=C01 tier=thorough timeout=900
// @bound every value of i8 presented through serialize_i8 against node decb2 (IntKind::DecBytes(2)); output <= 40 bytes; unwind 18 >= 16 decimal bytes + 2
#[kani::proof]
#[kani::unwind(18)]
#[kani::stub(alloc::fmt::format, crate::verif::stub_format)]
fn c02_int_i8_decb2() {
	crate::verif::stack_node!(d = nodes::dec_bytes(2));
	cell_int::<i8>(kani::any(), d, IntKind::DecBytes(2));
	kani::cover!(true, "end of harness reached");
}

// @harness props=C02 also=C01 tier=thorough timeout=900
// @bound every value of i16 presented through serialize_i16 against node decb2 (IntKind::DecBytes(2)); output <= 40 bytes; unwind 18 >= 16 decimal bytes + 2
#[kani::proof]
#[kani::unwind(18)]
#[kani::stub(alloc::fmt::format, crate::verif::stub_format)]
fn c02_int_i16_decb2() {
	crate::verif::stack_node!(d = nodes::dec_bytes(2));
	cell_int::<i16>(kani::any(), d, IntKind::DecBytes(2));
	kani::cover!(true, "end of harness reached");
}

// @harness props=C02 also=C01 tier=quick timeout=900
// @bound every value of i32 presented through serialize_i32 against node decb2 (IntKind::DecBytes(2)); output <= 40 bytes; unwind 18 >= 16 decimal bytes + 2
#[kani::proof]
#[kani::unwind(18)]
#[kani::stub(alloc::fmt::format, crate::verif::stub_format)]
fn c02_int_i32_decb2() {
	crate::verif::stack_node!(d = nodes::dec_bytes(2));
	cell_int::<i32>(kani::any(), d, IntKind::DecBytes(2));
	kani::cover!(true, "end of harness reached");
}

// @harness props=C02 also=C01 tier=quick timeout=900
// @bound every value of i64 presented through serialize_i64 against node decb2 (IntKind::DecBytes(2)); output <= 40 bytes; unwind 18 >= 16 decimal bytes + 2
#[kani::proof]
#[kani::unwind(18)]
#[kani::stub(alloc::fmt::format, crate::verif::stub_format)]
fn c02_int_i64_decb2() {
	crate::verif::stack_node!(d = nodes::dec_bytes(2));
	cell_int::<i64>(kani::any(), d, IntKind::DecBytes(2));
	kani::cover!(true, "end of harness reached");
}

// @harness props=C02 also=C01 tier=quick timeout=900
// @bound every value of i128 presented through serialize_i128 against node decb2 (IntKind::DecBytes(2)); output <= 40 bytes; unwind 18 >= 16 decimal bytes + 2
#[kani::proof]
#[kani::unwind(18)]
#[kani::stub(alloc::fmt::format, crate::verif::stub_format)]
fn c02_int_i128_decb2() {
	crate::verif::stack_node!(d = nodes::dec_bytes(2));
	cell_int::<i128>(kani::any(), d, IntKind::DecBytes(2));
	kani::cover!(true, "end of harness reached");
}

// @harness props=C02 also=C01 tier=quick timeout=900
// @bound every value of u8 presented through serialize_u8 against node decb2 (IntKind::DecBytes(2)); output <= 40 bytes; unwind 18 >= 16 decimal bytes + 2
#[kani::proof]
#[kani::unwind(18)]
#[kani::stub(alloc::fmt::format, crate::verif::stub_format)]
fn c02_int_u8_decb2() {
	crate::verif::stack_node!(d = nodes::dec_bytes(2));
	cell_int::<u8>(kani::any(), d, IntKind::DecBytes(2));
	kani::cover!(true, "end of harness reached");
}

// @harness props=C02 also=C01 tier=thorough timeout=900
// @bound every value of u16 presented through serialize_u16 against node decb2 (IntKind::DecBytes(2)); output <= 40 bytes; unwind 18 >= 16 decimal bytes + 2
#[kani::proof]
#[kani::unwind(18)]
#[kani::stub(alloc::fmt::format, crate::verif::stub_format)]
fn c02_int_u16_decb2() {
	crate::verif::stack_node!(d = nodes::dec_bytes(2));
	cell_int::<u16>(kani::any(), d, IntKind::DecBytes(2));
	kani::cover!(true, "end of harness reached");
}

// @harness props=C02 also=C01 tier=thorough timeout=900
// @bound every value of u32 presented through serialize_u32 against node decb2 (IntKind::DecBytes(2)); output <= 40 bytes; unwind 18 >= 16 decimal bytes + 2
#[kani::proof]
#[kani::unwind(18)]
#[kani::stub(alloc::fmt::format, crate::verif::stub_format)]
fn c02_int_u32_decb2() {
	crate::verif::stack_node!(d = nodes::dec_bytes(2));
	cell_int::<u32>(kani::any(), d, IntKind::DecBytes(2));
	kani::cover!(true, "end of harness reached");
}

// @harness props=C02 also=C01 tier=quick timeout=900
// @bound every value of u64 presented through serialize_u64 against node decb2 (IntKind::DecBytes(2)); output <= 40 bytes; unwind 18 >= 16 decimal bytes + 2
#[kani::proof]
#[kani::unwind(18)]
#[kani::stub(alloc::fmt::format, crate::verif::stub_format)]
fn c02_int_u64_decb2() {
	crate::verif::stack_node!(d = nodes::dec_bytes(2));
	cell_int::<u64>(kani::any(), d, IntKind::DecBytes(2));
	kani::cover!(true, "end of harness reached");
}

// @harness props=C02 also=C01 tier=thorough timeout=900
// @bound every value of u128 presented through serialize_u128 against node decb2 (IntKind::DecBytes(2)); output <= 40 bytes; unwind 18 >= 16 decimal bytes + 2
#[kani::proof]
#[kani::unwind(18)]
#[kani::stub(alloc::fmt::format, crate::verif::stub_format)]
fn c02_int_u128_decb2() {
	crate::verif::stack_node!(d = nodes::dec_bytes(2));
	cell_int::<u128>(kani::any(), d, IntKind::DecBytes(2));
	kani::cover!(true, "end of harness reached");
}

// @harness props=C02 also=C01 tier=thorough timeout=900
// @bound every value of i8 presented through serialize_i8 against node decf0_0 (IntKind::DecFixed(0, 0)); output <= 40 bytes; unwind 18 >= 16 decimal bytes + 2
#[kani::proof]
#[kani::unwind(18)]
#[kani::stub(alloc::fmt::format, crate::verif::stub_format)]
fn c02_int_i8_decf0_0() {
	crate::verif::stack_node!(d = nodes::dec_fixed(0, 0));
	cell_int::<i8>(kani::any(), d, IntKind::DecFixed(0, 0));
	kani::cover!(true, "end of harness reached");
}

// @harness props=C02 also=C01 tier=thorough timeout=900
// @bound every value of i16 presented through serialize_i16 against node decf0_0 (IntKind::DecFixed(0, 0)); output <= 40 bytes; unwind 18 >= 16 decimal bytes + 2
#[kani::proof]
#[kani::unwind(18)]
#[kani::stub(alloc::fmt::format, crate::verif::stub_format)]
fn c02_int_i16_decf0_0() {
	crate::verif::stack_node!(d = nodes::dec_fixed(0, 0));
	cell_int::<i16>(kani::any(), d, IntKind::DecFixed(0, 0));
	kani::cover!(true, "end of harness reached");
}

// @harness props=C02 also=C01 tier=thorough timeout=900
// @bound every value of i32 presented through serialize_i32 against node decf0_0 (IntKind::DecFixed(0, 0)); output <= 40 bytes; unwind 18 >= 16 decimal bytes + 2
#[kani::proof]
#[kani::unwind(18)]
#[kani::stub(alloc::fmt::format, crate::verif::stub_format)]
fn c02_int_i32_decf0_0() {
	crate::verif::stack_node!(d = nodes::dec_fixed(0, 0));
	cell_int::<i32>(kani::any(), d, IntKind::DecFixed(0, 0));
	kani::cover!(true, "end of harness reached");
}

// @harness props=C02 also=C01 tier=thorough timeout=900
// @bound every value of i64 presented through serialize_i64 against node decf0_0 (IntKind::DecFixed(0, 0)); output <= 40 bytes; unwind 18 >= 16 decimal bytes + 2
#[kani::proof]
#[kani::unwind(18)]
#[kani::stub(alloc::fmt::format, crate::verif::stub_format)]
fn c02_int_i64_decf0_0() {
	crate::verif::stack_node!(d = nodes::dec_fixed(0, 0));
	cell_int::<i64>(kani::any(), d, IntKind::DecFixed(0, 0));
	kani::cover!(true, "end of harness reached");
}

// @harness props=C02 also=C01 tier=thorough timeout=900
// @bound every value of i128 presented through serialize_i128 against node decf0_0 (IntKind::DecFixed(0, 0)); output <= 40 bytes; unwind 18 >= 16 decimal bytes + 2
#[kani::proof]
#[kani::unwind(18)]
#[kani::stub(alloc::fmt::format, crate::verif::stub_format)]
fn c02_int_i128_decf0_0() {
	crate::verif::stack_node!(d = nodes::dec_fixed(0, 0));
	cell_int::<i128>(kani::any(), d, IntKind::DecFixed(0, 0));
	kani::cover!(true, "end of harness reached");
}

// @harness props=C02 also=C01 tier=thorough timeout=900
// @bound every value of u8 presented through serialize_u8 against node decf0_0 (IntKind::DecFixed(0, 0)); output <= 40 bytes; unwind 18 >= 16 decimal bytes + 2
#[kani::proof]
#[kani::unwind(18)]
#[kani::stub(alloc::fmt::format, crate::verif::stub_format)]
fn c02_int_u8_decf0_0() {
	crate::verif::stack_node!(d = nodes::dec_fixed(0, 0));
	cell_int::<u8>(kani::any(), d, IntKind::DecFixed(0, 0));
	kani::cover!(true, "end of harness reached");
}

// @harness props=C02 also=C01 tier=thorough timeout=900
// @bound every value of u16 presented through serialize_u16 against node decf0_0 (IntKind::DecFixed(0, 0)); output <= 40 bytes; unwind 18 >= 16 decimal bytes + 2
#[kani::proof]
#[kani::unwind(18)]
#[kani::stub(alloc::fmt::format, crate::verif::stub_format)]
fn c02_int_u16_decf0_0() {
	crate::verif::stack_node!(d = nodes::dec_fixed(0, 0));
	cell_int::<u16>(kani::any(), d, IntKind::DecFixed(0, 0));
	kani::cover!(true, "end of harness reached");
}

// @harness props=C02 also=C01 tier=thorough timeout=900
// @bound every value of u32 presented through serialize_u32 against node decf0_0 (IntKind::DecFixed(0, 0)); output <= 40 bytes; unwind 18 >= 16 decimal bytes + 2
#[kani::proof]
#[kani::unwind(18)]
#[kani::stub(alloc::fmt::format, crate::verif::stub_format)]
fn c02_int_u32_decf0_0() {
	crate::verif::stack_node!(d = nodes::dec_fixed(0, 0));
	cell_int::<u32>(kani::any(), d, IntKind::DecFixed(0, 0));
	kani::cover!(true, "end of harness reached");
}

// @harness props=C02 also=C01 tier=thorough timeout=900
// @bound every value of u64 presented through serialize_u64 against node decf0_0 (IntKind::DecFixed(0, 0)); output <= 40 bytes; unwind 18 >= 16 decimal bytes + 2
#[kani::proof]
#[kani::unwind(18)]
#[kani::stub(alloc::fmt::format, crate::verif::stub_format)]
fn c02_int_u64_decf0_0() {
	crate::verif::stack_node!(d = nodes::dec_fixed(0, 0));
	cell_int::<u64>(kani::any(), d, IntKind::DecFixed(0, 0));
	kani::cover!(true, "end of harness reached");
}

// @harness props=C02 also=C01 tier=thorough timeout=900
// @bound every value of u128 presented through serialize_u128 against node decf0_0 (IntKind::DecFixed(0, 0)); output <= 40 bytes; unwind 18 >= 16 decimal bytes + 2
#[kani::proof]
#[kani::unwind(18)]
#[kani::stub(alloc::fmt::format, crate::verif::stub_format)]
fn c02_int_u128_decf0_0() {
	crate::verif::stack_node!(d = nodes::dec_fixed(0, 0));
	cell_int::<u128>(kani::any(), d, IntKind::DecFixed(0, 0));
	kani::cover!(true, "end of harness reached");
}

// @harness props=C02 also=C01 tier=thorough timeout=900
// @bound every value of i8 presented through serialize_i8 against node decf1_0 (IntKind::DecFixed(1, 0)); output <= 40 bytes; unwind 18 >= 16 decimal bytes + 2
#[kani::proof]
#[kani::unwind(18)]
#[kani::stub(alloc::fmt::format, crate::verif::stub_format)]
fn c02_int_i8_decf1_0() {
	crate::verif::stack_node!(d = nodes::dec_fixed(1, 0));
	cell_int::<i8>(kani::any(), d, IntKind::DecFixed(1, 0));
	kani::cover!(true, "end of harness reached");
}

// @harness props=C02 also=C01 tier=thorough timeout=900
// @bound every value of i16 presented through serialize_i16 against node decf1_0 (IntKind::DecFixed(1, 0)); output <= 40 bytes; unwind 18 >= 16 decimal bytes + 2
#[kani::proof]
#[kani::unwind(18)]
#[kani::stub(alloc::fmt::format, crate::verif::stub_format)]
fn c02_int_i16_decf1_0() {
	crate::verif::stack_node!(d = nodes::dec_fixed(1, 0));
	cell_int::<i16>(kani::any(), d, IntKind::DecFixed(1, 0));
	kani::cover!(true, "end of harness reached");
}

// @harness props=C02 also=C01 tier=quick timeout=900
// @bound every value of i32 presented through serialize_i32 against node decf1_0 (IntKind::DecFixed(1, 0)); output <= 40 bytes; unwind 18 >= 16 decimal bytes + 2
#[kani::proof]
#[kani::unwind(18)]
#[kani::stub(alloc::fmt::format, crate::verif::stub_format)]
fn c02_int_i32_decf1_0() {
	crate::verif::stack_node!(d = nodes::dec_fixed(1, 0));
	cell_int::<i32>(kani::any(), d, IntKind::DecFixed(1, 0));
	kani::cover!(true, "end of harness reached");
}

// @harness props=C02,C01 tier=quick timeout=900
// @bound every value of i64 presented through serialize_i64 against node decf1_0 (IntKind::DecFixed(1, 0)); output <= 40 bytes; unwind 18 >= 16 decimal bytes + 2
#[kani::proof]
#[kani::unwind(18)]
#[kani::stub(alloc::fmt::format, crate::verif::stub_format)]
fn c02_int_i64_decf1_0() {
	crate::verif::stack_node!(d = nodes::dec_fixed(1, 0));
	cell_int::<i64>(kani::any(), d, IntKind::DecFixed(1, 0));
	kani::cover!(true, "end of harness reached");
}

// @harness props=C02 also=C01 tier=quick timeout=900
// @bound every value of i128 presented through serialize_i128 against node decf1_0 (IntKind::DecFixed(1, 0)); output <= 40 bytes; unwind 18 >= 16 decimal bytes + 2
#[kani::proof]
#[kani::unwind(18)]
#[kani::stub(alloc::fmt::format, crate::verif::stub_format)]
fn c02_int_i128_decf1_0() {
	crate::verif::stack_node!(d = nodes::dec_fixed(1, 0));
	cell_int::<i128>(kani::any(), d, IntKind::DecFixed(1, 0));
	kani::cover!(true, "end of harness reached");
}

// @harness props=C02 also=C01 tier=quick timeout=900
// @bound every value of u8 presented through serialize_u8 against node decf1_0 (IntKind::DecFixed(1, 0)); output <= 40 bytes; unwind 18 >= 16 decimal bytes + 2
#[kani::proof]
#[kani::unwind(18)]
#[kani::stub(alloc::fmt::format, crate::verif::stub_format)]
fn c02_int_u8_decf1_0() {
	crate::verif::stack_node!(d = nodes::dec_fixed(1, 0));
	cell_int::<u8>(kani::any(), d, IntKind::DecFixed(1, 0));
	kani::cover!(true, "end of harness reached");
}

// @harness props=C02 also=C01 tier=thorough timeout=900
// @bound every value of u16 presented through serialize_u16 against node decf1_0 (IntKind::DecFixed(1, 0)); output <= 40 bytes; unwind 18 >= 16 decimal bytes + 2
#[kani::proof]
#[kani::unwind(18)]
#[kani::stub(alloc::fmt::format, crate::verif::stub_format)]
fn c02_int_u16_decf1_0() {
	crate::verif::stack_node!(d = nodes::dec_fixed(1, 0));
	cell_int::<u16>(kani::any(), d, IntKind::DecFixed(1, 0));
	kani::cover!(true, "end of harness reached");
}

// @harness props=C02 also=C01 tier=thorough timeout=900
// @bound every value of u32 presented through serialize_u32 against node decf1_0 (IntKind::DecFixed(1, 0)); output <= 40 bytes; unwind 18 >= 16 decimal bytes + 2
#[kani::proof]
#[kani::unwind(18)]
#[kani::stub(alloc::fmt::format, crate::verif::stub_format)]
fn c02_int_u32_decf1_0() {
	crate::verif::stack_node!(d = nodes::dec_fixed(1, 0));
	cell_int::<u32>(kani::any(), d, IntKind::DecFixed(1, 0));
	kani::cover!(true, "end of harness reached");
}

// @harness props=C02 also=C01 tier=quick timeout=900
// @bound every value of u64 presented through serialize_u64 against node decf1_0 (IntKind::DecFixed(1, 0)); output <= 40 bytes; unwind 18 >= 16 decimal bytes + 2
#[kani::proof]
#[kani::unwind(18)]
#[kani::stub(alloc::fmt::format, crate::verif::stub_format)]
fn c02_int_u64_decf1_0() {
	crate::verif::stack_node!(d = nodes::dec_fixed(1, 0));
	cell_int::<u64>(kani::any(), d, IntKind::DecFixed(1, 0));
	kani::cover!(true, "end of harness reached");
}

// @harness props=C02 also=C01 tier=thorough timeout=900
// @bound every value of u128 presented through serialize_u128 against node decf1_0 (IntKind::DecFixed(1, 0)); output <= 40 bytes; unwind 18 >= 16 decimal bytes + 2
#[kani::proof]
#[kani::unwind(18)]
#[kani::stub(alloc::fmt::format, crate::verif::stub_format)]
fn c02_int_u128_decf1_0() {
	crate::verif::stack_node!(d = nodes::dec_fixed(1, 0));
	cell_int::<u128>(kani::any(), d, IntKind::DecFixed(1, 0));
	kani::cover!(true, "end of harness reached");
}

// @harness props=C02 also=C01 tier=thorough timeout=900
// @bound every value of i8 presented through serialize_i8 against node decf2_0 (IntKind::DecFixed(2, 0)); output <= 40 bytes; unwind 18 >= 16 decimal bytes + 2
#[kani::proof]
#[kani::unwind(18)]
#[kani::stub(alloc::fmt::format, crate::verif::stub_format)]
fn c02_int_i8_decf2_0() {
	crate::verif::stack_node!(d = nodes::dec_fixed(2, 0));
	cell_int::<i8>(kani::any(), d, IntKind::DecFixed(2, 0));
	kani::cover!(true, "end of harness reached");
}

// @harness props=C02 also=C01 tier=thorough timeout=900
// @bound every value of i16 presented through serialize_i16 against node decf2_0 (IntKind::DecFixed(2, 0)); output <= 40 bytes; unwind 18 >= 16 decimal bytes + 2
#[kani::proof]
#[kani::unwind(18)]
#[kani::stub(alloc::fmt::format, crate::verif::stub_format)]
fn c02_int_i16_decf2_0() {
	crate::verif::stack_node!(d = nodes::dec_fixed(2, 0));
	cell_int::<i16>(kani::any(), d, IntKind::DecFixed(2, 0));
	kani::cover!(true, "end of harness reached");
}

// @harness props=C02 also=C01 tier=thorough timeout=900
// @bound every value of i32 presented through serialize_i32 against node decf2_0 (IntKind::DecFixed(2, 0)); output <= 40 bytes; unwind 18 >= 16 decimal bytes + 2
#[kani::proof]
#[kani::unwind(18)]
#[kani::stub(alloc::fmt::format, crate::verif::stub_format)]
fn c02_int_i32_decf2_0() {
	crate::verif::stack_node!(d = nodes::dec_fixed(2, 0));
	cell_int::<i32>(kani::any(), d, IntKind::DecFixed(2, 0));
	kani::cover!(true, "end of harness reached");
}

// @harness props=C02 also=C01 tier=thorough timeout=900
// @bound every value of i64 presented through serialize_i64 against node decf2_0 (IntKind::DecFixed(2, 0)); output <= 40 bytes; unwind 18 >= 16 decimal bytes + 2
#[kani::proof]
#[kani::unwind(18)]
#[kani::stub(alloc::fmt::format, crate::verif::stub_format)]
fn c02_int_i64_decf2_0() {
	crate::verif::stack_node!(d = nodes::dec_fixed(2, 0));
	cell_int::<i64>(kani::any(), d, IntKind::DecFixed(2, 0));
	kani::cover!(true, "end of harness reached");
}

// @harness props=C02 also=C01 tier=thorough timeout=900
// @bound every value of i128 presented through serialize_i128 against node decf2_0 (IntKind::DecFixed(2, 0)); output <= 40 bytes; unwind 18 >= 16 decimal bytes + 2
#[kani::proof]
#[kani::unwind(18)]
#[kani::stub(alloc::fmt::format, crate::verif::stub_format)]
fn c02_int_i128_decf2_0() {
	crate::verif::stack_node!(d = nodes::dec_fixed(2, 0));
	cell_int::<i128>(kani::any(), d, IntKind::DecFixed(2, 0));
	kani::cover!(true, "end of harness reached");
}

// @harness props=C02 also=C01 tier=thorough timeout=900
// @bound every value of u8 presented through serialize_u8 against node decf2_0 (IntKind::DecFixed(2, 0)); output <= 40 bytes; unwind 18 >= 16 decimal bytes + 2
#[kani::proof]
#[kani::unwind(18)]
#[kani::stub(alloc::fmt::format, crate::verif::stub_format)]
fn c02_int_u8_decf2_0() {
	crate::verif::stack_node!(d = nodes::dec_fixed(2, 0));
	cell_int::<u8>(kani::any(), d, IntKind::DecFixed(2, 0));
	kani::cover!(true, "end of harness reached");
}

// @harness props=C02 also=C01 tier=thorough timeout=900
// @bound every value of u16 presented through serialize_u16 against node decf2_0 (IntKind::DecFixed(2, 0)); output <= 40 bytes; unwind 18 >= 16 decimal bytes + 2
#[kani::proof]
#[kani::unwind(18)]
#[kani::stub(alloc::fmt::format, crate::verif::stub_format)]
fn c02_int_u16_decf2_0() {
	crate::verif::stack_node!(d = nodes::dec_fixed(2, 0));
	cell_int::<u16>(kani::any(), d, IntKind::DecFixed(2, 0));
	kani::cover!(true, "end of harness reached");
}

// @harness props=C02 also=C01 tier=thorough timeout=900
// @bound every value of u32 presented through serialize_u32 against node decf2_0 (IntKind::DecFixed(2, 0)); output <= 40 bytes; unwind 18 >= 16 decimal bytes + 2
#[kani::proof]
#[kani::unwind(18)]
#[kani::stub(alloc::fmt::format, crate::verif::stub_format)]
fn c02_int_u32_decf2_0() {
	crate::verif::stack_node!(d = nodes::dec_fixed(2, 0));
	cell_int::<u32>(kani::any(), d, IntKind::DecFixed(2, 0));
	kani::cover!(true, "end of harness reached");
}

// @harness props=C02 also=C01 tier=thorough timeout=900
// @bound every value of u64 presented through serialize_u64 against node decf2_0 (IntKind::DecFixed(2, 0)); output <= 40 bytes; unwind 18 >= 16 decimal bytes + 2
#[kani::proof]
#[kani::unwind(18)]
#[kani::stub(alloc::fmt::format, crate::verif::stub_format)]
fn c02_int_u64_decf2_0() {
	crate::verif::stack_node!(d = nodes::dec_fixed(2, 0));
	cell_int::<u64>(kani::any(), d, IntKind::DecFixed(2, 0));
	kani::cover!(true, "end of harness reached");
}

// @harness props=C02 also=C01 tier=thorough timeout=900
// @bound every value of u128 presented through serialize_u128 against node decf2_0 (IntKind::DecFixed(2, 0)); output <= 40 bytes; unwind 18 >= 16 decimal bytes + 2
#[kani::proof]
#[kani::unwind(18)]
#[kani::stub(alloc::fmt::format, crate::verif::stub_format)]
fn c02_int_u128_decf2_0() {
	crate::verif::stack_node!(d = nodes::dec_fixed(2, 0));
	cell_int::<u128>(kani::any(), d, IntKind::DecFixed(2, 0));
	kani::cover!(true, "end of harness reached");
}

// @harness props=C02 also=C01 tier=thorough timeout=900
// @bound every value of i8 presented through serialize_i8 against node decf8_0 (IntKind::DecFixed(8, 0)); output <= 40 bytes; unwind 18 >= 16 decimal bytes + 2
#[kani::proof]
#[kani::unwind(18)]
#[kani::stub(alloc::fmt::format, crate::verif::stub_format)]
fn c02_int_i8_decf8_0() {
	crate::verif::stack_node!(d = nodes::dec_fixed(8, 0));
	cell_int::<i8>(kani::any(), d, IntKind::DecFixed(8, 0));
	kani::cover!(true, "end of harness reached");
}

// @harness props=C02 also=C01 tier=thorough timeout=900
// @bound every value of i16 presented through serialize_i16 against node decf8_0 (IntKind::DecFixed(8, 0)); output <= 40 bytes; unwind 18 >= 16 decimal bytes + 2
#[kani::proof]
#[kani::unwind(18)]
#[kani::stub(alloc::fmt::format, crate::verif::stub_format)]
fn c02_int_i16_decf8_0() {
	crate::verif::stack_node!(d = nodes::dec_fixed(8, 0));
	cell_int::<i16>(kani::any(), d, IntKind::DecFixed(8, 0));
	kani::cover!(true, "end of harness reached");
}

// @harness props=C02 also=C01 tier=thorough timeout=900
// @bound every value of i32 presented through serialize_i32 against node decf8_0 (IntKind::DecFixed(8, 0)); output <= 40 bytes; unwind 18 >= 16 decimal bytes + 2
#[kani::proof]
#[kani::unwind(18)]
#[kani::stub(alloc::fmt::format, crate::verif::stub_format)]
fn c02_int_i32_decf8_0() {
	crate::verif::stack_node!(d = nodes::dec_fixed(8, 0));
	cell_int::<i32>(kani::any(), d, IntKind::DecFixed(8, 0));
	kani::cover!(true, "end of harness reached");
}

// @harness props=C02 also=C01 tier=thorough timeout=900
// @bound every value of i64 presented through serialize_i64 against node decf8_0 (IntKind::DecFixed(8, 0)); output <= 40 bytes; unwind 18 >= 16 decimal bytes + 2
#[kani::proof]
#[kani::unwind(18)]
#[kani::stub(alloc::fmt::format, crate::verif::stub_format)]
fn c02_int_i64_decf8_0() {
	crate::verif::stack_node!(d = nodes::dec_fixed(8, 0));
	cell_int::<i64>(kani::any(), d, IntKind::DecFixed(8, 0));
	kani::cover!(true, "end of harness reached");
}

// @harness props=C02 also=C01 tier=thorough timeout=900
// @bound every value of i128 presented through serialize_i128 against node decf8_0 (IntKind::DecFixed(8, 0)); output <= 40 bytes; unwind 18 >= 16 decimal bytes + 2
#[kani::proof]
#[kani::unwind(18)]
#[kani::stub(alloc::fmt::format, crate::verif::stub_format)]
fn c02_int_i128_decf8_0() {
	crate::verif::stack_node!(d = nodes::dec_fixed(8, 0));
	cell_int::<i128>(kani::any(), d, IntKind::DecFixed(8, 0));
	kani::cover!(true, "end of harness reached");
}

// @harness props=C02 also=C01 tier=thorough timeout=900
// @bound every value of u8 presented through serialize_u8 against node decf8_0 (IntKind::DecFixed(8, 0)); output <= 40 bytes; unwind 18 >= 16 decimal bytes + 2
#[kani::proof]
#[kani::unwind(18)]
#[kani::stub(alloc::fmt::format, crate::verif::stub_format)]
fn c02_int_u8_decf8_0() {
	crate::verif::stack_node!(d = nodes::dec_fixed(8, 0));
	cell_int::<u8>(kani::any(), d, IntKind::DecFixed(8, 0));
	kani::cover!(true, "end of harness reached");
}

// @harness props=C02 also=C01 tier=thorough timeout=900
// @bound every value of u16 presented through serialize_u16 against node decf8_0 (IntKind::DecFixed(8, 0)); output <= 40 bytes; unwind 18 >= 16 decimal bytes + 2
#[kani::proof]
#[kani::unwind(18)]
#[kani::stub(alloc::fmt::format, crate::verif::stub_format)]
fn c02_int_u16_decf8_0() {
	crate::verif::stack_node!(d = nodes::dec_fixed(8, 0));
	cell_int::<u16>(kani::any(), d, IntKind::DecFixed(8, 0));
	kani::cover!(true, "end of harness reached");
}

// @harness props=C02 also=C01 tier=thorough timeout=900
// @bound every value of u32 presented through serialize_u32 against node decf8_0 (IntKind::DecFixed(8, 0)); output <= 40 bytes; unwind 18 >= 16 decimal bytes + 2
#[kani::proof]
#[kani::unwind(18)]
#[kani::stub(alloc::fmt::format, crate::verif::stub_format)]
fn c02_int_u32_decf8_0() {
	crate::verif::stack_node!(d = nodes::dec_fixed(8, 0));
	cell_int::<u32>(kani::any(), d, IntKind::DecFixed(8, 0));
	kani::cover!(true, "end of harness reached");
}

// @harness props=C02 also=C01 tier=thorough timeout=900
// @bound every value of u64 presented through serialize_u64 against node decf8_0 (IntKind::DecFixed(8, 0)); output <= 40 bytes; unwind 18 >= 16 decimal bytes + 2
#[kani::proof]
#[kani::unwind(18)]
#[kani::stub(alloc::fmt::format, crate::verif::stub_format)]
fn c02_int_u64_decf8_0() {
	crate::verif::stack_node!(d = nodes::dec_fixed(8, 0));
	cell_int::<u64>(kani::any(), d, IntKind::DecFixed(8, 0));
	kani::cover!(true, "end of harness reached");
}

// @harness props=C02 also=C01 tier=thorough timeout=900
// @bound every value of u128 presented through serialize_u128 against node decf8_0 (IntKind::DecFixed(8, 0)); output <= 40 bytes; unwind 18 >= 16 decimal bytes + 2
#[kani::proof]
#[kani::unwind(18)]
#[kani::stub(alloc::fmt::format, crate::verif::stub_format)]
fn c02_int_u128_decf8_0() {
	crate::verif::stack_node!(d = nodes::dec_fixed(8, 0));
	cell_int::<u128>(kani::any(), d, IntKind::DecFixed(8, 0));
	kani::cover!(true, "end of harness reached");
}

// @harness props=C02 also=C01 tier=thorough timeout=900
// @bound every value of i8 presented through serialize_i8 against node decf16_0 (IntKind::DecFixed(16, 0)); output <= 40 bytes; unwind 18 >= 16 decimal bytes + 2
#[kani::proof]
#[kani::unwind(18)]
#[kani::stub(alloc::fmt::format, crate::verif::stub_format)]
fn c02_int_i8_decf16_0() {
	crate::verif::stack_node!(d = nodes::dec_fixed(16, 0));
	cell_int::<i8>(kani::any(), d, IntKind::DecFixed(16, 0));
	kani::cover!(true, "end of harness reached");
}

// @harness props=C02 also=C01 tier=thorough timeout=900
// @bound every value of i16 presented through serialize_i16 against node decf16_0 (IntKind::DecFixed(16, 0)); output <= 40 bytes; unwind 18 >= 16 decimal bytes + 2
#[kani::proof]
#[kani::unwind(18)]
#[kani::stub(alloc::fmt::format, crate::verif::stub_format)]
fn c02_int_i16_decf16_0() {
	crate::verif::stack_node!(d = nodes::dec_fixed(16, 0));
	cell_int::<i16>(kani::any(), d, IntKind::DecFixed(16, 0));
	kani::cover!(true, "end of harness reached");
}

// @harness props=C02 also=C01 tier=thorough timeout=900
// @bound every value of i32 presented through serialize_i32 against node decf16_0 (IntKind::DecFixed(16, 0)); output <= 40 bytes; unwind 18 >= 16 decimal bytes + 2
#[kani::proof]
#[kani::unwind(18)]
#[kani::stub(alloc::fmt::format, crate::verif::stub_format)]
fn c02_int_i32_decf16_0() {
	crate::verif::stack_node!(d = nodes::dec_fixed(16, 0));
	cell_int::<i32>(kani::any(), d, IntKind::DecFixed(16, 0));
	kani::cover!(true, "end of harness reached");
}

// @harness props=C02 also=C01 tier=thorough timeout=900
// @bound every value of i64 presented through serialize_i64 against node decf16_0 (IntKind::DecFixed(16, 0)); output <= 40 bytes; unwind 18 >= 16 decimal bytes + 2
#[kani::proof]
#[kani::unwind(18)]
#[kani::stub(alloc::fmt::format, crate::verif::stub_format)]
fn c02_int_i64_decf16_0() {
	crate::verif::stack_node!(d = nodes::dec_fixed(16, 0));
	cell_int::<i64>(kani::any(), d, IntKind::DecFixed(16, 0));
	kani::cover!(true, "end of harness reached");
}

// @harness props=C02 also=C01 tier=thorough timeout=900
// @bound every value of i128 presented through serialize_i128 against node decf16_0 (IntKind::DecFixed(16, 0)); output <= 40 bytes; unwind 18 >= 16 decimal bytes + 2
#[kani::proof]
#[kani::unwind(18)]
#[kani::stub(alloc::fmt::format, crate::verif::stub_format)]
fn c02_int_i128_decf16_0() {
	crate::verif::stack_node!(d = nodes::dec_fixed(16, 0));
	cell_int::<i128>(kani::any(), d, IntKind::DecFixed(16, 0));
	kani::cover!(true, "end of harness reached");
}

// @harness props=C02 also=C01 tier=thorough timeout=900
// @bound every value of u8 presented through serialize_u8 against node decf16_0 (IntKind::DecFixed(16, 0)); output <= 40 bytes; unwind 18 >= 16 decimal bytes + 2
#[kani::proof]
#[kani::unwind(18)]
#[kani::stub(alloc::fmt::format, crate::verif::stub_format)]
fn c02_int_u8_decf16_0() {
	crate::verif::stack_node!(d = nodes::dec_fixed(16, 0));
	cell_int::<u8>(kani::any(), d, IntKind::DecFixed(16, 0));
	kani::cover!(true, "end of harness reached");
}

// @harness props=C02 also=C01 tier=thorough timeout=900
// @bound every value of u16 presented through serialize_u16 against node decf16_0 (IntKind::DecFixed(16, 0)); output <= 40 bytes; unwind 18 >= 16 decimal bytes + 2
#[kani::proof]
#[kani::unwind(18)]
#[kani::stub(alloc::fmt::format, crate::verif::stub_format)]
fn c02_int_u16_decf16_0() {
	crate::verif::stack_node!(d = nodes::dec_fixed(16, 0));
	cell_int::<u16>(kani::any(), d, IntKind::DecFixed(16, 0));
	kani::cover!(true, "end of harness reached");
}

// @harness props=C02 also=C01 tier=thorough timeout=900
// @bound every value of u32 presented through serialize_u32 against node decf16_0 (IntKind::DecFixed(16, 0)); output <= 40 bytes; unwind 18 >= 16 decimal bytes + 2
#[kani::proof]
#[kani::unwind(18)]
#[kani::stub(alloc::fmt::format, crate::verif::stub_format)]
fn c02_int_u32_decf16_0() {
	crate::verif::stack_node!(d = nodes::dec_fixed(16, 0));
	cell_int::<u32>(kani::any(), d, IntKind::DecFixed(16, 0));
	kani::cover!(true, "end of harness reached");
}

// @harness props=C02 also=C01 tier=thorough timeout=900
// @bound every value of u64 presented through serialize_u64 against node decf16_0 (IntKind::DecFixed(16, 0)); output <= 40 bytes; unwind 18 >= 16 decimal bytes + 2
#[kani::proof]
#[kani::unwind(18)]
#[kani::stub(alloc::fmt::format, crate::verif::stub_format)]
fn c02_int_u64_decf16_0() {
	crate::verif::stack_node!(d = nodes::dec_fixed(16, 0));
	cell_int::<u64>(kani::any(), d, IntKind::DecFixed(16, 0));
	kani::cover!(true, "end of harness reached");
}

// @harness props=C02 also=C01 tier=thorough timeout=900
// @bound every value of u128 presented through serialize_u128 against node decf16_0 (IntKind::DecFixed(16, 0)); output <= 40 bytes; unwind 18 >= 16 decimal bytes + 2
#[kani::proof]
#[kani::unwind(18)]
#[kani::stub(alloc::fmt::format, crate::verif::stub_format)]
fn c02_int_u128_decf16_0() {
	crate::verif::stack_node!(d = nodes::dec_fixed(16, 0));
	cell_int::<u128>(kani::any(), d, IntKind::DecFixed(16, 0));
	kani::cover!(true, "end of harness reached");
}

// @harness props=C02 also=C01 tier=thorough timeout=900
// @bound every value of i8 presented through serialize_i8 against node decf17_0 (IntKind::DecFixed(17, 0)); output <= 40 bytes; unwind 18 >= 16 decimal bytes + 2
#[kani::proof]
#[kani::unwind(18)]
#[kani::stub(alloc::fmt::format, crate::verif::stub_format)]
fn c02_int_i8_decf17_0() {
	crate::verif::stack_node!(d = nodes::dec_fixed(17, 0));
	cell_int::<i8>(kani::any(), d, IntKind::DecFixed(17, 0));
	kani::cover!(true, "end of harness reached");
}

// @harness props=C02 also=C01 tier=thorough timeout=900
// @bound every value of i16 presented through serialize_i16 against node decf17_0 (IntKind::DecFixed(17, 0)); output <= 40 bytes; unwind 18 >= 16 decimal bytes + 2
#[kani::proof]
#[kani::unwind(18)]
#[kani::stub(alloc::fmt::format, crate::verif::stub_format)]
fn c02_int_i16_decf17_0() {
	crate::verif::stack_node!(d = nodes::dec_fixed(17, 0));
	cell_int::<i16>(kani::any(), d, IntKind::DecFixed(17, 0));
	kani::cover!(true, "end of harness reached");
}

// @harness props=C02 also=C01 tier=thorough timeout=900
// @bound every value of i32 presented through serialize_i32 against node decf17_0 (IntKind::DecFixed(17, 0)); output <= 40 bytes; unwind 18 >= 16 decimal bytes + 2
#[kani::proof]
#[kani::unwind(18)]
#[kani::stub(alloc::fmt::format, crate::verif::stub_format)]
fn c02_int_i32_decf17_0() {
	crate::verif::stack_node!(d = nodes::dec_fixed(17, 0));
	cell_int::<i32>(kani::any(), d, IntKind::DecFixed(17, 0));
	kani::cover!(true, "end of harness reached");
}

// @harness props=C02 also=C01 tier=thorough timeout=900
// @bound every value of i64 presented through serialize_i64 against node decf17_0 (IntKind::DecFixed(17, 0)); output <= 40 bytes; unwind 18 >= 16 decimal bytes + 2
#[kani::proof]
#[kani::unwind(18)]
#[kani::stub(alloc::fmt::format, crate::verif::stub_format)]
fn c02_int_i64_decf17_0() {
	crate::verif::stack_node!(d = nodes::dec_fixed(17, 0));
	cell_int::<i64>(kani::any(), d, IntKind::DecFixed(17, 0));
	kani::cover!(true, "end of harness reached");
}

// @harness props=C02 also=C01 tier=thorough timeout=900
// @bound every value of i128 presented through serialize_i128 against node decf17_0 (IntKind::DecFixed(17, 0)); output <= 40 bytes; unwind 18 >= 16 decimal bytes + 2
#[kani::proof]
#[kani::unwind(18)]
#[kani::stub(alloc::fmt::format, crate::verif::stub_format)]
fn c02_int_i128_decf17_0() {
	crate::verif::stack_node!(d = nodes::dec_fixed(17, 0));
	cell_int::<i128>(kani::any(), d, IntKind::DecFixed(17, 0));
	kani::cover!(true, "end of harness reached");
}

// @harness props=C02 also=C01 tier=thorough timeout=900
// @bound every value of u8 presented through serialize_u8 against node decf17_0 (IntKind::DecFixed(17, 0)); output <= 40 bytes; unwind 18 >= 16 decimal bytes + 2
#[kani::proof]
#[kani::unwind(18)]
#[kani::stub(alloc::fmt::format, crate::verif::stub_format)]
fn c02_int_u8_decf17_0() {
	crate::verif::stack_node!(d = nodes::dec_fixed(17, 0));
	cell_int::<u8>(kani::any(), d, IntKind::DecFixed(17, 0));
	kani::cover!(true, "end of harness reached");
}

// @harness props=C02 also=C01 tier=thorough timeout=900
// @bound every value of u16 presented through serialize_u16 against node decf17_0 (IntKind::DecFixed(17, 0)); output <= 40 bytes; unwind 18 >= 16 decimal bytes + 2
#[kani::proof]
#[kani::unwind(18)]
#[kani::stub(alloc::fmt::format, crate::verif::stub_format)]
fn c02_int_u16_decf17_0() {
	crate::verif::stack_node!(d = nodes::dec_fixed(17, 0));
	cell_int::<u16>(kani::any(), d, IntKind::DecFixed(17, 0));
	kani::cover!(true, "end of harness reached");
}

// @harness props=C02 also=C01 tier=thorough timeout=900
// @bound every value of u32 presented through serialize_u32 against node decf17_0 (IntKind::DecFixed(17, 0)); output <= 40 bytes; unwind 18 >= 16 decimal bytes + 2
#[kani::proof]
#[kani::unwind(18)]
#[kani::stub(alloc::fmt::format, crate::verif::stub_format)]
fn c02_int_u32_decf17_0() {
	crate::verif::stack_node!(d = nodes::dec_fixed(17, 0));
	cell_int::<u32>(kani::any(), d, IntKind::DecFixed(17, 0));
	kani::cover!(true, "end of harness reached");
}

// @harness props=C02 also=C01 tier=thorough timeout=900
// @bound every value of u64 presented through serialize_u64 against node decf17_0 (IntKind::DecFixed(17, 0)); output <= 40 bytes; unwind 18 >= 16 decimal bytes + 2
#[kani::proof]
#[kani::unwind(18)]
#[kani::stub(alloc::fmt::format, crate::verif::stub_format)]
fn c02_int_u64_decf17_0() {
	crate::verif::stack_node!(d = nodes::dec_fixed(17, 0));
	cell_int::<u64>(kani::any(), d, IntKind::DecFixed(17, 0));
	kani::cover!(true, "end of harness reached");
}

// @harness props=C02 also=C01 tier=thorough timeout=900
// @bound every value of u128 presented through serialize_u128 against node decf17_0 (IntKind::DecFixed(17, 0)); output <= 40 bytes; unwind 18 >= 16 decimal bytes + 2
#[kani::proof]
#[kani::unwind(18)]
#[kani::stub(alloc::fmt::format, crate::verif::stub_format)]
fn c02_int_u128_decf17_0() {
	crate::verif::stack_node!(d = nodes::dec_fixed(17, 0));
	cell_int::<u128>(kani::any(), d, IntKind::DecFixed(17, 0));
	kani::cover!(true, "end of harness reached");
}

// @harness props=C02 also=C01 tier=thorough timeout=900
// @bound every value of i8 presented through serialize_i8 against node decf2_1 (IntKind::DecFixed(2, 1)); output <= 40 bytes; unwind 18 >= 16 decimal bytes + 2
#[kani::proof]
#[kani::unwind(18)]
#[kani::stub(alloc::fmt::format, crate::verif::stub_format)]
fn c02_int_i8_decf2_1() {
	crate::verif::stack_node!(d = nodes::dec_fixed(2, 1));
	cell_int::<i8>(kani::any(), d, IntKind::DecFixed(2, 1));
	kani::cover!(true, "end of harness reached");
}

// @harness props=C02 also=C01 tier=thorough timeout=900
// @bound every value of i16 presented through serialize_i16 against node decf2_1 (IntKind::DecFixed(2, 1)); output <= 40 bytes; unwind 18 >= 16 decimal bytes + 2
#[kani::proof]
#[kani::unwind(18)]
#[kani::stub(alloc::fmt::format, crate::verif::stub_format)]
fn c02_int_i16_decf2_1() {
	crate::verif::stack_node!(d = nodes::dec_fixed(2, 1));
	cell_int::<i16>(kani::any(), d, IntKind::DecFixed(2, 1));
	kani::cover!(true, "end of harness reached");
}

// @harness props=C02 also=C01 tier=quick timeout=900
// @bound every value of i32 presented through serialize_i32 against node decf2_1 (IntKind::DecFixed(2, 1)); output <= 40 bytes; unwind 18 >= 16 decimal bytes + 2
#[kani::proof]
#[kani::unwind(18)]
#[kani::stub(alloc::fmt::format, crate::verif::stub_format)]
fn c02_int_i32_decf2_1() {
	crate::verif::stack_node!(d = nodes::dec_fixed(2, 1));
	cell_int::<i32>(kani::any(), d, IntKind::DecFixed(2, 1));
	kani::cover!(true, "end of harness reached");
}

// @harness props=C02 also=C01 tier=quick timeout=900
// @bound every value of i64 presented through serialize_i64 against node decf2_1 (IntKind::DecFixed(2, 1)); output <= 40 bytes; unwind 18 >= 16 decimal bytes + 2
#[kani::proof]
#[kani::unwind(18)]
#[kani::stub(alloc::fmt::format, crate::verif::stub_format)]
fn c02_int_i64_decf2_1() {
	crate::verif::stack_node!(d = nodes::dec_fixed(2, 1));
	cell_int::<i64>(kani::any(), d, IntKind::DecFixed(2, 1));
	kani::cover!(true, "end of harness reached");
}

// @harness props=C02 also=C01 tier=quick timeout=900
// @bound every value of i128 presented through serialize_i128 against node decf2_1 (IntKind::DecFixed(2, 1)); output <= 40 bytes; unwind 18 >= 16 decimal bytes + 2
#[kani::proof]
#[kani::unwind(18)]
#[kani::stub(alloc::fmt::format, crate::verif::stub_format)]
fn c02_int_i128_decf2_1() {
	crate::verif::stack_node!(d = nodes::dec_fixed(2, 1));
	cell_int::<i128>(kani::any(), d, IntKind::DecFixed(2, 1));
	kani::cover!(true, "end of harness reached");
}

// @harness props=C02 also=C01 tier=quick timeout=900
// @bound every value of u8 presented through serialize_u8 against node decf2_1 (IntKind::DecFixed(2, 1)); output <= 40 bytes; unwind 18 >= 16 decimal bytes + 2
#[kani::proof]
#[kani::unwind(18)]
#[kani::stub(alloc::fmt::format, crate::verif::stub_format)]
fn c02_int_u8_decf2_1() {
	crate::verif::stack_node!(d = nodes::dec_fixed(2, 1));
	cell_int::<u8>(kani::any(), d, IntKind::DecFixed(2, 1));
	kani::cover!(true, "end of harness reached");
}

// @harness props=C02 also=C01 tier=thorough timeout=900
// @bound every value of u16 presented through serialize_u16 against node decf2_1 (IntKind::DecFixed(2, 1)); output <= 40 bytes; unwind 18 >= 16 decimal bytes + 2
#[kani::proof]
#[kani::unwind(18)]
#[kani::stub(alloc::fmt::format, crate::verif::stub_format)]
fn c02_int_u16_decf2_1() {
	crate::verif::stack_node!(d = nodes::dec_fixed(2, 1));
	cell_int::<u16>(kani::any(), d, IntKind::DecFixed(2, 1));
	kani::cover!(true, "end of harness reached");
}

// @harness props=C02 also=C01 tier=thorough timeout=900
// @bound every value of u32 presented through serialize_u32 against node decf2_1 (IntKind::DecFixed(2, 1)); output <= 40 bytes; unwind 18 >= 16 decimal bytes + 2
#[kani::proof]
#[kani::unwind(18)]
#[kani::stub(alloc::fmt::format, crate::verif::stub_format)]
fn c02_int_u32_decf2_1() {
	crate::verif::stack_node!(d = nodes::dec_fixed(2, 1));
	cell_int::<u32>(kani::any(), d, IntKind::DecFixed(2, 1));
	kani::cover!(true, "end of harness reached");
}

// @harness props=C02 also=C01 tier=quick timeout=900
// @bound every value of u64 presented through serialize_u64 against node decf2_1 (IntKind::DecFixed(2, 1)); output <= 40 bytes; unwind 18 >= 16 decimal bytes + 2
#[kani::proof]
#[kani::unwind(18)]
#[kani::stub(alloc::fmt::format, crate::verif::stub_format)]
fn c02_int_u64_decf2_1() {
	crate::verif::stack_node!(d = nodes::dec_fixed(2, 1));
	cell_int::<u64>(kani::any(), d, IntKind::DecFixed(2, 1));
	kani::cover!(true, "end of harness reached");
}

// @harness props=C02 also=C01 tier=thorough timeout=900
// @bound every value of u128 presented through serialize_u128 against node decf2_1 (IntKind::DecFixed(2, 1)); output <= 40 bytes; unwind 18 >= 16 decimal bytes + 2
#[kani::proof]
#[kani::unwind(18)]
#[kani::stub(alloc::fmt::format, crate::verif::stub_format)]
fn c02_int_u128_decf2_1() {
	crate::verif::stack_node!(d = nodes::dec_fixed(2, 1));
	cell_int::<u128>(kani::any(), d, IntKind::DecFixed(2, 1));
	kani::cover!(true, "end of harness reached");
}

// =============================================================================================
// C02: other presentations

use crate::verif::targets::*;

// @harness props=C02 tier=quick timeout=900 finding=F9
// @bound bytes presented through serialize_bytes (0..=3 symbolic bytes) to a `string` node: Ok => length-prefixed copy AND the bytes are well-formed UTF-8 (else no reader accepts the datum); ill-formed => Err
#[kani::proof]
#[kani::unwind(8)]
#[kani::stub(alloc::fmt::format, crate::verif::stub_format)]
fn c02_bytes_to_string() {
	let content: [u8; 3] = kani::any();
	let n: usize = kani::any();
	kani::assume(n <= 3);
	let (r, out) = ser_to::<8, _>(&nodes::STRING, &SBytes(&content[..n]), false);
	let valid = spec::utf8_valid(&content[..n]);
	kani::cover!(!valid);
	if r.is_ok() {
		assert!(valid, "c02_bytes_to_string: Ok after writing a string that is not valid UTF-8 (undecodable datum)");
		let got = out.bytes();
		assert!(got.len() == 1 + n && got[0] == (n as u8) << 1, "c02_bytes_to_string: wrong length prefix");
	} else {
		assert!(!valid, "c02_bytes_to_string: valid UTF-8 bytes rejected for string");
	}
	std::mem::forget(r);
	kani::cover!(true, "end of harness reached");
}

// @harness props=C02,C01 tier=quick timeout=900
// @bound bytes (0..=4 symbolic) to `bytes`; to fixed(3): Ok iff length == 3 and then exactly those bytes; to duration: Ok iff length == 12
#[kani::proof]
#[kani::unwind(15)]
#[kani::stub(alloc::fmt::format, crate::verif::stub_format)]
fn c02_bytes_to_bytes_fixed_duration() {
	crate::verif::stack_node!(f3 = nodes::fixed_node(3));
	let content: [u8; 13] = kani::any();
	let n: usize = kani::any();
	kani::assume(n <= 4);
	let (r, out) = ser_to::<8, _>(&nodes::BYTES, &SBytes(&content[..n]), false);
	assert!(r.is_ok() && out.len == 1 + n && out.buf[0] == (n as u8) << 1 && (n == 0 || out.buf[n] == content[n - 1]), "c02_bytes: wrong encoding of bytes");
	std::mem::forget(r);
	let (r, out) = ser_to::<8, _>(f3, &SBytes(&content[..n]), false);
	if r.is_ok() {
		assert!(n == 3 && out.len == 3 && out.buf[0] == content[0] && out.buf[2] == content[2], "c02_fixed: Ok with a length different from the fixed size, or wrong bytes");
	} else {
		assert!(n != 3, "c02_fixed: bytes of the right length rejected");
	}
	std::mem::forget(r);
	let m: usize = kani::any();
	kani::assume(m <= 13);
	let (r, out) = ser_to::<16, _>(&nodes::DURATION, &SBytes(&content[..m]), false);
	kani::cover!(m == 12);
	if r.is_ok() {
		assert!(m == 12 && out.len == 12 && out.buf[11] == content[11], "c02_duration: Ok with a length different from 12");
	} else {
		assert!(m != 12, "c02_duration: 12 raw bytes rejected");
	}
	std::mem::forget(r);
	kani::cover!(true, "end of harness reached");
}

pub(crate) struct StrSrc<'a>(pub(crate) &'a str);
impl Serialize for StrSrc<'_> {
	fn serialize<S: Serializer>(&self, s: S) -> Result<S::Ok, S::Error> {
		s.serialize_str(self.0)
	}
}

// @harness props=C02,C01 tier=quick timeout=900
// @bound str presented to enum {a,b,cc}: each symbol -> its index as varint; non-members ("c", "", "ccc") -> Err
#[kani::proof]
#[kani::unwind(8)]
#[kani::stub(alloc::fmt::format, crate::verif::stub_format)]
fn c02_str_to_enum() {
	crate::verif::enum_node!(en = "e", None; ["a", "b", "cc"]);
	let (r, out) = ser_to::<4, _>(en, &StrSrc("a"), false);
	assert!(r.is_ok() && out.len == 1 && out.buf[0] == 0, "c02_str_enum: symbol a");
	std::mem::forget(r);
	let (r, out) = ser_to::<4, _>(en, &StrSrc("cc"), false);
	assert!(r.is_ok() && out.len == 1 && out.buf[0] == 4, "c02_str_enum: symbol cc");
	std::mem::forget(r);
	let (r, _) = ser_to::<4, _>(en, &StrSrc("c"), false);
	assert!(r.is_err(), "c02_str_enum: symbol not in the schema accepted");
	std::mem::forget(r);
	let (r, _) = ser_to::<4, _>(en, &StrSrc(""), false);
	assert!(r.is_err(), "c02_str_enum: empty symbol accepted");
	std::mem::forget(r);
	let (r, _) = ser_to::<4, _>(en, &StrSrc("ccc"), false);
	assert!(r.is_err(), "c02_str_enum: symbol not in the schema accepted");
	std::mem::forget(r);
	kani::cover!(true, "end of harness reached");
}

/// sequence source with independent advertised length
struct SeqAdv<'a> {
	items: &'a [i64],
	advertised: Option<usize>,
}
impl Serialize for SeqAdv<'_> {
	fn serialize<S: Serializer>(&self, s: S) -> Result<S::Ok, S::Error> {
		let mut q = s.serialize_seq(self.advertised)?;
		let mut i = 0;
		while i < self.items.len() {
			q.serialize_element(&self.items[i])?;
			i += 1;
		}
		q.end()
	}
}

// (tier=off: symbolic element count x symbolic advertised length: no verdict in 3000 s; replaced by c02_seq_to_array_cases)
// @harness props=C02 also=C01 tier=off timeout=3000
// @bound seq of 0..=3 longs (values -64..64) to array<long> with an advertised length that is exact, absent, smaller or larger (symbolic 0..=4): Ok => the bytes decode (reference block decoder) to exactly the presented elements; fewer elements than advertised => Err
#[kani::proof]
#[kani::unwind(8)]
#[kani::stub(alloc::fmt::format, crate::verif::stub_format)]
fn c02_seq_to_array() {
	crate::verif::stack_node!(arr = nodes::array_of(&nodes::LONG));
	let vals: [i64; 3] = kani::any();
	kani::assume(vals[0] >= -64 && vals[0] < 64 && vals[1] >= -64 && vals[1] < 64 && vals[2] >= -64 && vals[2] < 64);
	let n: usize = kani::any();
	kani::assume(n <= 3);
	let adv: usize = kani::any();
	kani::assume(adv <= 5);
	let advertised = if adv == 5 { None } else { Some(adv) };
	let (r, out) = ser_to::<16, _>(arr, &SeqAdv { items: &vals[..n], advertised }, false);
	kani::cover!(r.is_ok() && adv == 1 && n == 3);
	kani::cover!(r.is_err());
	if r.is_ok() {
		assert!(adv == 5 || adv <= n, "c02_seq_array: Ok although fewer elements than advertised were written");
		// reference decode: blocks of positive counts, single-byte items
		let got = out.bytes();
		let mut pos = 0;
		let mut k = 0;
		let mut guard = 0;
		loop {
			assert!(pos < got.len() && guard < 5, "c02_seq_array: output ends without terminating block");
			guard += 1;
			let c = got[pos];
			pos += 1;
			if c == 0 {
				break;
			}
			assert!(c & 1 == 0 && c < 0x80, "c02_seq_array: unexpected block count");
			let mut j = 0;
			while j < (c >> 1) {
				assert!(k < n && pos < got.len(), "c02_seq_array: more items in the output than presented");
				assert!(spec::unzigzag64(got[pos] as u64) == vals[k], "c02_seq_array: item differs");
				pos += 1;
				k += 1;
				j += 1;
			}
		}
		assert!(k == n && pos == got.len(), "c02_seq_array: output does not contain exactly the presented elements");
	} else {
		assert!(adv != 5 && adv > n, "c02_seq_array: conforming sequence rejected");
	}
	std::mem::forget(r);
	kani::cover!(true, "end of harness reached");
}

/// u8 sequence source (what a transcoder without serde_bytes would present)
struct U8Seq<'a> {
	items: &'a [u8],
	advertised: Option<usize>,
}
impl Serialize for U8Seq<'_> {
	fn serialize<S: Serializer>(&self, s: S) -> Result<S::Ok, S::Error> {
		let mut q = s.serialize_seq(self.advertised)?;
		let mut i = 0;
		while i < self.items.len() {
			q.serialize_element(&self.items[i])?;
			i += 1;
		}
		q.end()
	}
}

// (tier=off: symbolic element count x symbolic advertised length: no verdict in 3000 s; replaced by c02_seq_to_bytes_cases)
// @harness props=C02 also=C01 tier=off timeout=3000
// @bound u8 seq of 0..=3 elements to `bytes` (slow-sequence mode on) and to fixed(2), advertised length exact / absent / wrong (symbolic): Ok => spec-exact bytes of exactly the presented elements; length mismatch => Err; mode off => Err
#[kani::proof]
#[kani::unwind(8)]
#[kani::stub(alloc::fmt::format, crate::verif::stub_format)]
fn c02_seq_to_bytes_fixed() {
	crate::verif::stack_node!(f2 = nodes::fixed_node(2));
	let vals: [u8; 3] = kani::any();
	let n: usize = kani::any();
	kani::assume(n <= 3);
	let adv: usize = kani::any();
	kani::assume(adv <= 4);
	let advertised = if adv == 4 { None } else { Some(adv) };
	let (r, out) = ser_to::<8, _>(&nodes::BYTES, &U8Seq { items: &vals[..n], advertised }, true);
	kani::cover!(r.is_ok() && adv == 4 && n == 3);
	if r.is_ok() {
		assert!(adv == 4 || adv == n, "c02_seq_bytes: Ok although the advertised length differs from the number of elements");
		assert!(out.len == 1 + n && out.buf[0] == (n as u8) << 1 && (n == 0 || out.buf[n] == vals[n - 1]), "c02_seq_bytes: wrong bytes");
	} else {
		assert!(adv != 4 && adv != n, "c02_seq_bytes: conforming sequence rejected");
	}
	std::mem::forget(r);
	let (r, out) = ser_to::<8, _>(f2, &U8Seq { items: &vals[..n], advertised }, true);
	if r.is_ok() {
		assert!(n == 2 && (adv == 4 || adv == 2), "c02_seq_fixed: Ok although length differs from the fixed size");
		assert!(out.len == 2 && out.buf[0] == vals[0] && out.buf[1] == vals[1], "c02_seq_fixed: wrong bytes");
	} else {
		assert!(!(n == 2 && (adv == 4 || adv == 2)), "c02_seq_fixed: conforming sequence rejected");
	}
	std::mem::forget(r);
	let (r, _) = ser_to::<8, _>(&nodes::BYTES, &U8Seq { items: &vals[..n], advertised }, false);
	assert!(r.is_err(), "c02_seq_bytes: slow sequence-to-bytes conversion must be refused unless enabled");
	std::mem::forget(r);
	kani::cover!(true, "end of harness reached");
}

// @harness props=C02,C01 tier=quick timeout=900
// @bound duration from (u32,u32,u32) tuple and from struct {months,days,milliseconds}: all values -> 12 little-endian bytes
#[kani::proof]
#[kani::unwind(14)]
#[kani::stub(alloc::fmt::format, crate::verif::stub_format)]
fn c02_duration() {
	let (m, d, ms): (u32, u32, u32) = (kani::any(), kani::any(), kani::any());
	let mut want = spec::Enc::<12>::new();
	want.u32_le(m);
	want.u32_le(d);
	want.u32_le(ms);
	let (r, out) = ser_to::<16, _>(&nodes::DURATION, &DurTuple(m, d, ms), false);
	assert!(r.is_ok() && bytes_eq(out.bytes(), want.bytes()), "c02_duration: tuple encoding differs");
	std::mem::forget(r);
	let (r, out) = ser_to::<16, _>(&nodes::DURATION, &Dur { months: m, days: d, milliseconds: ms }, false);
	assert!(r.is_ok() && bytes_eq(out.bytes(), want.bytes()), "c02_duration: struct encoding differs");
	std::mem::forget(r);
	kani::cover!(true, "end of harness reached");
}

// @harness props=C02,C01 tier=quick timeout=900
// @bound float (all f32 bit patterns via serialize_f32), double (all f64 bit patterns), boolean, unit->null, f32 to double -> Err
#[kani::proof]
#[kani::unwind(10)]
#[kani::stub(alloc::fmt::format, crate::verif::stub_format)]
fn c02_fixed_width() {
	let fb: u32 = kani::any();
	let f = f32::from_bits(fb);
	let (r, out) = ser_to::<8, _>(&nodes::FLOAT, &f, false);
	let mut want = spec::Enc::<8>::new();
	want.f32_bits(fb);
	assert!(r.is_ok() && bytes_eq(out.bytes(), want.bytes()), "c02_float: bits changed");
	std::mem::forget(r);
	let db: u64 = kani::any();
	let g = f64::from_bits(db);
	let (r, out) = ser_to::<8, _>(&nodes::DOUBLE, &g, false);
	let mut want = spec::Enc::<8>::new();
	want.f64_bits(db);
	assert!(r.is_ok() && bytes_eq(out.bytes(), want.bytes()), "c02_double: bits changed");
	std::mem::forget(r);
	let b: bool = kani::any();
	let (r, out) = ser_to::<8, _>(&nodes::BOOLEAN, &b, false);
	assert!(r.is_ok() && out.len == 1 && out.buf[0] == b as u8, "c02_bool: wrong byte");
	std::mem::forget(r);
	let (r, out) = ser_to::<8, _>(&nodes::NULL, &(), false);
	assert!(r.is_ok() && out.len == 0, "c02_null: null must encode to nothing");
	std::mem::forget(r);
	let (r, _) = ser_to::<8, _>(&nodes::DOUBLE, &f, false);
	assert!(r.is_err(), "c02: f32 presented to double is documented to fail");
	std::mem::forget(r);
	kani::cover!(true, "end of harness reached");
}

// @harness props=C02,C01 tier=quick timeout=900
// @bound str of 0..=3 symbolic bytes (well-formed UTF-8) to string / bytes / uuid: length-prefixed copy; to fixed(2): Ok iff 2 bytes
#[kani::proof]
#[kani::unwind(8)]
#[kani::stub(alloc::fmt::format, crate::verif::stub_format)]
fn c02_str_presentations() {
	crate::verif::stack_node!(f2 = nodes::fixed_node(2));
	let content: [u8; 3] = kani::any();
	let n: usize = kani::any();
	kani::assume(n <= 3);
	kani::assume(spec::utf8_valid(&content[..n]));
	let s = unsafe { std::str::from_utf8_unchecked(&content[..n]) };
	let (r, out) = ser_to::<8, _>(&nodes::STRING, &StrSrc(s), false);
	assert!(r.is_ok() && out.len == 1 + n && out.buf[0] == (n as u8) << 1 && (n == 0 || out.buf[n] == content[n - 1]), "c02_str: string encoding");
	std::mem::forget(r);
	let (r, out) = ser_to::<8, _>(&nodes::UUID, &StrSrc(s), false);
	assert!(r.is_ok() && out.len == 1 + n && out.buf[0] == (n as u8) << 1, "c02_str: uuid encoding");
	std::mem::forget(r);
	let (r, out) = ser_to::<8, _>(&nodes::BYTES, &StrSrc(s), false);
	assert!(r.is_ok() && out.len == 1 + n, "c02_str: bytes encoding");
	std::mem::forget(r);
	let (r, out) = ser_to::<8, _>(f2, &StrSrc(s), false);
	if r.is_ok() {
		assert!(n == 2 && out.len == 2 && out.buf[1] == content[1], "c02_str: fixed accepted a str of the wrong length");
	} else {
		assert!(n != 2, "c02_str: fixed rejected a str of the right length");
	}
	std::mem::forget(r);
	kani::cover!(true, "end of harness reached");
}



// =============================================================================================
// C02 / C01: values presented as rust_decimal::Decimal (what str / f64 presentations are turned into)

fn decimal_serialize_case(node: &'static SchemaNode<'static>, m: i128) -> (Result<(), SerError>, FixedBuf<24>) {
	let dec = match node {
		SchemaNode::Decimal(d) => d,
		_ => unreachable!(),
	};
	let mut config = SerializerConfig::new_with_optional_schema(None);
	let mut state = SerializerState::from_writer(FixedBuf::<24>::new(), &mut config);
	let r = decimal::serialize(&mut state, decimal::DecimalMode::Regular(dec), rust_decimal::Decimal::from_i128_with_scale(m, 0));
	let w = state.into_writer();
	std::mem::forget(config);
	(r, w)
}

// @harness props=C02 also=C01 tier=quick timeout=1800
// @bound decimal(bytes, scale 0) from a rust_decimal value with every mantissa in -2^40..2^40 at scale 0 (the sign-aware minimal-length truncation): Ok, length-prefixed two's complement that decodes to the same number
#[kani::proof]
#[kani::unwind(19)]
#[kani::stub(alloc::fmt::format, crate::verif::stub_format)]
fn c02_decimal_serialize_bytes() {
	crate::verif::stack_node!(db = nodes::dec_bytes(0));
	let m: i64 = kani::any();
	kani::assume(m > -(1i64 << 40) && m < (1i64 << 40));
	let (r, out) = decimal_serialize_case(db, m as i128);
	kani::cover!(m == 128);
	kani::cover!(m == -129);
	assert!(r.is_ok(), "c02_decimal: conforming decimal rejected");
	let got = out.bytes();
	assert!(got.len() >= 2 && got[0] as usize == (got.len() - 1) << 1, "c02_decimal: wrong length prefix");
	assert!(spec::twos_complement(&got[1..]) == m as i128, "c02_decimal: decimal(bytes) payload decodes to a different number");
	std::mem::forget(r);
	kani::cover!(true, "end of harness reached");
}

// @harness props=C02 also=C01 tier=quick timeout=1800
// @bound decimal(fixed 17) (wider than the 16-byte mantissa) from a rust_decimal value, mantissa in -2^40..2^40: 17 bytes, sign-extended two's complement of the number
#[kani::proof]
#[kani::unwind(19)]
#[kani::stub(alloc::fmt::format, crate::verif::stub_format)]
fn c02_decimal_serialize_fixed17() {
	crate::verif::stack_node!(dw = nodes::dec_fixed(17, 0));
	let m: i64 = kani::any();
	kani::assume(m > -(1i64 << 40) && m < (1i64 << 40));
	let (r, out) = decimal_serialize_case(dw, m as i128);
	kani::cover!(m < 0);
	assert!(r.is_ok() && out.len == 17, "c02_decimal: decimal(fixed 17) must hold any 96-bit mantissa");
	let sign = if m < 0 { 0xFFu8 } else { 0x00 };
	assert!(out.buf[0] == sign && spec::twos_complement(&out.buf[1..17]) == m as i128, "c02_decimal: decimal(fixed 17) is not the sign-extended two's complement of the number");
	std::mem::forget(r);
	kani::cover!(true, "end of harness reached");
}

// @harness props=C02 also=C01 tier=thorough timeout=3600
// @bound decimal(bytes, scale 0), decimal(fixed 2) and decimal(fixed 17) from a rust_decimal value with every mantissa in -2^40..2^40 at scale 0 (the sign-aware minimal-length truncation): Ok => length-prefixed two's complement that decodes to the same number; does not fit fixed(2) => Err
#[kani::proof]
#[kani::unwind(19)]
#[kani::stub(alloc::fmt::format, crate::verif::stub_format)]
fn c02_decimal_serialize() {
	crate::verif::stack_node!(db = nodes::dec_bytes(0));
	crate::verif::stack_node!(df = nodes::dec_fixed(2, 0));
	let m: i64 = kani::any();
	kani::assume(m > -(1i64 << 40) && m < (1i64 << 40));
	let (r, out) = decimal_serialize_case(db, m as i128);
	kani::cover!(m == 128);
	kani::cover!(m == -129);
	assert!(r.is_ok(), "c02_decimal: conforming decimal rejected");
	let got = out.bytes();
	assert!(got.len() >= 2 && got[0] as usize == (got.len() - 1) << 1, "c02_decimal: wrong length prefix");
	assert!(spec::twos_complement(&got[1..]) == m as i128, "c02_decimal: decimal(bytes) payload decodes to a different number");
	std::mem::forget(r);
	let (r, out) = decimal_serialize_case(df, m as i128);
	if r.is_ok() {
		assert!(spec::fits_twos_complement(m as i128, 2), "c02_decimal: Ok for a number that does not fit fixed(2)");
		assert!(out.len == 2 && spec::twos_complement(out.bytes()) == m as i128, "c02_decimal: decimal(fixed) bytes decode to a different number");
	} else {
		assert!(!spec::fits_twos_complement(m as i128, 2), "c02_decimal: number fitting fixed(2) rejected");
	}
	std::mem::forget(r);
	// fixed wider than the 16-byte mantissa: must be sign-extended to the full width
	crate::verif::stack_node!(dw = nodes::dec_fixed(17, 0));
	let (r, out) = decimal_serialize_case(dw, m as i128);
	assert!(r.is_ok() && out.len == 17, "c02_decimal: decimal(fixed 17) must hold any 96-bit mantissa");
	let sign = if m < 0 { 0xFFu8 } else { 0x00 };
	assert!(out.buf[0] == sign && spec::twos_complement(&out.buf[1..17]) == m as i128, "c02_decimal: decimal(fixed 17) is not the sign-extended two's complement of the number");
	std::mem::forget(r);
	kani::cover!(true, "end of harness reached");
}

/// decode an array<long> encoding of at most 2 one-byte items written as positive-count blocks, by direct
/// indexing (the general reference decoder over a symbolic-length buffer costs > 1M SSA steps here). Layouts
/// with negative counts (also valid per the specification, never produced by this serializer) are reported as
/// not decodable: if the serializer ever starts emitting them this oracle has to be widened, not the code blamed.
fn decode_small_array(got: &[u8], out: &mut [i64; 2]) -> Option<usize> {
	if got.is_empty() {
		return None;
	}
	match got[0] {
		0 => {
			if got.len() == 1 {
				Some(0)
			} else {
				None
			}
		}
		4 => {
			if got.len() == 4 && got[1] < 0x80 && got[2] < 0x80 && got[3] == 0 {
				out[0] = spec::unzigzag64(got[1] as u64);
				out[1] = spec::unzigzag64(got[2] as u64);
				Some(2)
			} else {
				None
			}
		}
		2 => {
			if got.len() == 3 && got[1] < 0x80 && got[2] == 0 {
				out[0] = spec::unzigzag64(got[1] as u64);
				Some(1)
			} else if got.len() == 5 && got[1] < 0x80 && got[2] == 2 && got[3] < 0x80 && got[4] == 0 {
				out[0] = spec::unzigzag64(got[1] as u64);
				out[1] = spec::unzigzag64(got[3] as u64);
				Some(2)
			} else {
				None
			}
		}
		_ => None,
	}
}

fn seq_array_case(vals: [i64; 2], n: usize, advertised: Option<usize>) {
	crate::verif::stack_node!(arr = nodes::array_of(&nodes::LONG));
	let mut items = [0i64; 2];
	items[0] = vals[0];
	items[1] = vals[1];
	let (r, out) = ser_to::<16, _>(arr, &SeqAdv { items: &items[..n], advertised }, false);
	let short = match advertised {
		Some(a) => a > n,
		None => false,
	};
	if short {
		assert!(r.is_err(), "c02_seq_array: Ok although fewer elements than advertised were written");
	} else {
		assert!(r.is_ok(), "c02_seq_array: conforming sequence rejected");
		let mut back = [0i64; 2];
		let k = decode_small_array(out.bytes(), &mut back);
		assert!(k == Some(n), "c02_seq_array: output does not decode to the presented number of elements");
		assert!((n < 1 || back[0] == items[0]) && (n < 2 || back[1] == items[1]), "c02_seq_array: decoded elements differ from the presented ones");
	}
	std::mem::forget(r);
}
// (tier=off: out of memory at 45 GB: the element node pointer travels through the niche-encoded Result returned by serialize_seq and is not folded)
// @harness props=C02 also=C01 tier=off timeout=1800
// @bound seq -> array<long>: 2 element(s) with symbolic values (-64..64), advertised length Some(2): Ok and the blocks decode (reference decoder) to exactly the presented elements
#[kani::proof]
#[kani::unwind(6)]
#[kani::stub(alloc::fmt::format, crate::verif::stub_format)]
fn c02_seq_to_array_exact() {
	let vals: [i64; 2] = kani::any();
	kani::assume(vals[0] >= -64 && vals[0] < 64 && vals[1] >= -64 && vals[1] < 64);
	seq_array_case(vals, 2, Some(2));
	kani::cover!(true, "end of harness reached");
}

// @harness props=C02 also=C01 tier=thorough timeout=1800
// @bound seq -> array<long>: 2 element(s) with symbolic values (-64..64), advertised length None: Ok and the blocks decode (reference decoder) to exactly the presented elements
#[kani::proof]
#[kani::unwind(6)]
#[kani::stub(alloc::fmt::format, crate::verif::stub_format)]
fn c02_seq_to_array_nohint() {
	let vals: [i64; 2] = kani::any();
	kani::assume(vals[0] >= -64 && vals[0] < 64 && vals[1] >= -64 && vals[1] < 64);
	seq_array_case(vals, 2, None);
	kani::cover!(true, "end of harness reached");
}

// (tier=off: same as c02_seq_to_array_exact)
// @harness props=C02 also=C01 tier=off timeout=1800
// @bound seq -> array<long>: 2 element(s) with symbolic values (-64..64), advertised length Some(1): Ok and the blocks decode (reference decoder) to exactly the presented elements
#[kani::proof]
#[kani::unwind(6)]
#[kani::stub(alloc::fmt::format, crate::verif::stub_format)]
fn c02_seq_to_array_short_hint() {
	let vals: [i64; 2] = kani::any();
	kani::assume(vals[0] >= -64 && vals[0] < 64 && vals[1] >= -64 && vals[1] < 64);
	seq_array_case(vals, 2, Some(1));
	kani::cover!(true, "end of harness reached");
}

// @harness props=C02 also=C01 tier=quick timeout=1800
// @bound seq -> array<long>: 1 element(s) with symbolic values (-64..64), advertised length Some(2): fewer elements than advertised => Err
#[kani::proof]
#[kani::unwind(6)]
#[kani::stub(alloc::fmt::format, crate::verif::stub_format)]
fn c02_seq_to_array_too_few() {
	let vals: [i64; 2] = kani::any();
	kani::assume(vals[0] >= -64 && vals[0] < 64 && vals[1] >= -64 && vals[1] < 64);
	seq_array_case(vals, 1, Some(2));
	kani::cover!(true, "end of harness reached");
}

// @harness props=C02 also=C01 tier=thorough timeout=1800
// @bound seq -> array<long>: 0 element(s) with symbolic values (-64..64), advertised length Some(0): Ok and the blocks decode (reference decoder) to exactly the presented elements
#[kani::proof]
#[kani::unwind(6)]
#[kani::stub(alloc::fmt::format, crate::verif::stub_format)]
fn c02_seq_to_array_empty() {
	let vals: [i64; 2] = kani::any();
	kani::assume(vals[0] >= -64 && vals[0] < 64 && vals[1] >= -64 && vals[1] < 64);
	seq_array_case(vals, 0, Some(0));
	kani::cover!(true, "end of harness reached");
}

// @harness props=C02 also=C01 tier=quick timeout=1800
// @bound seq -> array<long>: 2 element(s) with symbolic values (-64..64), advertised length Some(0): Ok and the blocks decode (reference decoder) to exactly the presented elements
#[kani::proof]
#[kani::unwind(6)]
#[kani::stub(alloc::fmt::format, crate::verif::stub_format)]
fn c02_seq_to_array_zero_hint() {
	let vals: [i64; 2] = kani::any();
	kani::assume(vals[0] >= -64 && vals[0] < 64 && vals[1] >= -64 && vals[1] < 64);
	seq_array_case(vals, 2, Some(0));
	kani::cover!(true, "end of harness reached");
}

fn seq_bytes_case(vals: [u8; 2], n: usize, advertised: Option<usize>) {
	crate::verif::stack_node!(f2 = nodes::fixed_node(2));
	let mut items = [0u8; 2];
	items[0] = vals[0];
	items[1] = vals[1];
	let (r, out) = ser_to::<8, _>(&nodes::BYTES, &U8Seq { items: &items[..n], advertised }, true);
	let consistent = match advertised {
		Some(a) => a == n,
		None => true,
	};
	if consistent {
		assert!(r.is_ok() && out.len == 1 + n && out.buf[0] == (n as u8) << 1 && (n < 1 || out.buf[1] == items[0]) && (n < 2 || out.buf[2] == items[1]), "c02_seq_bytes: wrong bytes for a conforming sequence");
	} else {
		assert!(r.is_err(), "c02_seq_bytes: Ok although the advertised length differs from the number of elements");
	}
	std::mem::forget(r);
	let (r, out) = ser_to::<8, _>(f2, &U8Seq { items: &items[..n], advertised }, true);
	if consistent && n == 2 {
		assert!(r.is_ok() && out.len == 2 && out.buf[0] == items[0] && out.buf[1] == items[1], "c02_seq_fixed: wrong bytes");
	} else {
		assert!(r.is_err(), "c02_seq_fixed: Ok although the length differs from the fixed size / advertised length");
	}
	std::mem::forget(r);
}

// @harness props=C02 also=C01 tier=quick timeout=1800
// @bound u8 seq -> bytes (slow-sequence mode on) and -> fixed(2): 2 element(s) with symbolic values, advertised length Some(2): consistent => spec-exact bytes; inconsistent with the number of elements / the fixed size => Err
#[kani::proof]
#[kani::unwind(6)]
#[kani::stub(alloc::fmt::format, crate::verif::stub_format)]
fn c02_seq_to_bytes_exact() {
	let vals: [u8; 2] = kani::any();
	seq_bytes_case(vals, 2, Some(2));
	kani::cover!(true, "end of harness reached");
}

// (tier=off: the buffered-bytes path (no length hint) hits the 20 GB memory limit after ~400 s)
// @harness props=C02 also=C01 tier=off timeout=1800
// @bound u8 seq -> bytes (slow-sequence mode on) and -> fixed(2): 2 element(s) with symbolic values, advertised length None: consistent => spec-exact bytes; inconsistent with the number of elements / the fixed size => Err
#[kani::proof]
#[kani::unwind(6)]
#[kani::stub(alloc::fmt::format, crate::verif::stub_format)]
fn c02_seq_to_bytes_nohint() {
	let vals: [u8; 2] = kani::any();
	seq_bytes_case(vals, 2, None);
	kani::cover!(true, "end of harness reached");
}

// @harness props=C02 also=C01 tier=quick timeout=1800
// @bound u8 seq -> bytes (slow-sequence mode on) and -> fixed(2): 2 element(s) with symbolic values, advertised length Some(1): consistent => spec-exact bytes; inconsistent with the number of elements / the fixed size => Err
#[kani::proof]
#[kani::unwind(6)]
#[kani::stub(alloc::fmt::format, crate::verif::stub_format)]
fn c02_seq_to_bytes_wrong_hint() {
	let vals: [u8; 2] = kani::any();
	seq_bytes_case(vals, 2, Some(1));
	kani::cover!(true, "end of harness reached");
}

// @harness props=C02 also=C01 tier=thorough timeout=1800
// @bound u8 seq -> bytes (slow-sequence mode on) and -> fixed(2): 1 element(s) with symbolic values, advertised length Some(2): consistent => spec-exact bytes; inconsistent with the number of elements / the fixed size => Err
#[kani::proof]
#[kani::unwind(6)]
#[kani::stub(alloc::fmt::format, crate::verif::stub_format)]
fn c02_seq_to_bytes_too_few() {
	let vals: [u8; 2] = kani::any();
	seq_bytes_case(vals, 1, Some(2));
	kani::cover!(true, "end of harness reached");
}

// @harness props=C02 tier=quick timeout=900
// @bound u8 seq -> bytes with the slow sequence-to-bytes mode off => Err
#[kani::proof]
#[kani::unwind(6)]
#[kani::stub(alloc::fmt::format, crate::verif::stub_format)]
fn c02_seq_to_bytes_mode_off() {
	let vals: [u8; 2] = kani::any();
	let items = [vals[0], vals[1]];
	let (r, _) = ser_to::<8, _>(&nodes::BYTES, &U8Seq { items: &items[..2], advertised: Some(2) }, false);
	assert!(r.is_err(), "c02_seq_bytes: slow sequence-to-bytes conversion must be refused unless enabled");
	std::mem::forget(r);
	kani::cover!(true, "end of harness reached");
}
