// Mounted in serde_avro_fast::ser::serializer — datum serializer harnesses (C01 C02 C13 C14)
use super::*;
use crate::schema::verif as nodes;
use crate::verif::{io::*, spec};

/// Run the real serializer for `v` against the constant node, into an infallible fixed buffer.
pub(crate) fn ser_to<const N: usize, T: Serialize + ?Sized>(
	node: &'static SchemaNode<'static>,
	v: &T,
	slow_seq: bool,
) -> (Result<(), SerError>, FixedBuf<N>) {
	let mut config = SerializerConfig::new_with_optional_schema(None);
	if slow_seq {
		config.allow_slow_sequence_to_bytes();
	}
	let mut state = SerializerState::from_writer(FixedBuf::<N>::new(), &mut config);
	let r = v.serialize(state.serializer_overriding_schema_root(node));
	let w = state.into_writer();
	std::mem::forget(config);
	(r, w)
}

pub(crate) fn bytes_eq(a: &[u8], b: &[u8]) -> bool {
	if a.len() != b.len() {
		return false;
	}
	let mut i = 0;
	while i < a.len() {
		if a[i] != b[i] {
			return false;
		}
		i += 1;
	}
	true
}

pub(crate) trait IntSrc: Serialize + Copy {
	fn to_i128(self) -> Option<i128>;
}
macro_rules! int_src {
	($($t:ty)*) => {$(
		impl IntSrc for $t {
			fn to_i128(self) -> Option<i128> {
				i128::try_from(self).ok()
			}
		}
	)*};
}
int_src!(i8 i16 i32 i64 i128 u8 u16 u32 u64 u128);

#[derive(Clone, Copy)]
pub(crate) enum IntKind {
	Int,
	Long,
	DecBytes(u32),
	DecFixed(usize, u32),
	Enum(i128),
}

const fn pow10(s: u32) -> i128 {
	let mut r = 1i128;
	let mut i = 0;
	while i < s {
		r *= 10;
		i += 1;
	}
	r
}

/// One cell of the (integer presentation x schema kind) matrix.
/// Ok  => bytes are exactly the specification's encoding of the same logical value
/// value not representable under the schema => Err
/// representable => Ok (the C01 half: conforming values serialize)
pub(crate) fn cell_int<T: IntSrc>(v: T, node: &'static SchemaNode<'static>, kind: IntKind) {
	let (r, out) = ser_to::<40, T>(node, &v, false);
	let exact = v.to_i128();
	let got = out.bytes();
	let mut want = [0u8; 10];
	match kind {
		IntKind::Int | IntKind::Long => {
			let fits = match (exact, kind) {
				(Some(x), IntKind::Int) => x >= i32::MIN as i128 && x <= i32::MAX as i128,
				(Some(x), _) => x >= i64::MIN as i128 && x <= i64::MAX as i128,
				(None, _) => false,
			};
			kani::cover!(fits && r.is_ok());
			if r.is_ok() {
				assert!(fits, "c02_int: Ok for an integer outside the range of the Avro type");
				let n = spec::put_long(exact.unwrap() as i64, &mut want, 0);
				assert!(bytes_eq(got, &want[..n]), "c02_int: bytes differ from the zig-zag varint of the value");
			} else {
				assert!(!fits, "c02_int: representable integer rejected");
			}
		}
		IntKind::Enum(k) => {
			let fits = match exact {
				Some(x) => x >= 0 && x < k,
				None => false,
			};
			kani::cover!(fits && r.is_ok());
			if r.is_ok() {
				assert!(fits, "c02_int_enum: Ok for an enum index that is not in the schema");
				let n = spec::put_long(exact.unwrap() as i64, &mut want, 0);
				assert!(bytes_eq(got, &want[..n]), "c02_int_enum: bytes differ from the varint of the index");
			} else {
				assert!(!fits, "c02_int_enum: valid enum index rejected");
			}
		}
		IntKind::DecBytes(scale) => {
			let unscaled = match exact {
				Some(x) => x.checked_mul(pow10(scale)),
				None => None,
			};
			kani::cover!(r.is_ok());
			if r.is_ok() {
				assert!(unscaled.is_some(), "c02_int_dec: Ok for a value whose unscaled form overflows 16 bytes");
				// length prefix then two's complement big-endian
				let (l, ln) = match spec::get_uvarint(got) {
					Some(x) => x,
					None => {
						assert!(false, "c02_int_dec: no length prefix");
						return;
					}
				};
				let l = spec::unzigzag64(l);
				assert!(l >= 0 && l <= 16 && ln + l as usize == got.len(), "c02_int_dec: length prefix does not match payload");
				let payload = &got[ln..];
				assert!(spec::twos_complement(payload) == unscaled.unwrap(), "c02_int_dec: decimal(bytes) payload decodes to a different number");
			} else {
				assert!(unscaled.is_none(), "c02_int_dec: representable decimal rejected");
			}
		}
		IntKind::DecFixed(size, scale) => {
			let unscaled = match exact {
				Some(x) => x.checked_mul(pow10(scale)),
				None => None,
			};
			let fits = match unscaled {
				Some(u) => size <= 16 && spec::fits_twos_complement(u, size),
				None => false,
			};
			kani::cover!(r.is_ok());
			if r.is_ok() {
				assert!(fits, "c02_int_decfixed: Ok for a number that does not fit the fixed size");
				assert!(got.len() == size, "c02_int_decfixed: wrong number of bytes for fixed");
				assert!(spec::twos_complement(got) == unscaled.unwrap(), "c02_int_decfixed: decimal(fixed) bytes decode to a different number");
			} else {
				assert!(!fits, "c02_int_decfixed: representable decimal rejected");
			}
		}
	}
	std::mem::forget(r);
}

// ---- generated: integer presentation x schema kind cell matrix (C02, and the 'succeeds' half of C01) ----

// @harness props=C02,C01 tier=thorough timeout=900
// @bound every value of i8 presented through serialize_i8 against node int (IntKind::Int); output <= 40 bytes; unwind 18 >= 16 decimal bytes + 2
#[kani::proof]
#[kani::unwind(18)]
#[kani::stub(alloc::fmt::format, crate::verif::stub_format)]
fn c02_int_i8_int() {
	cell_int::<i8>(kani::any(), &nodes::INT, IntKind::Int);
}

// @harness props=C02,C01 tier=thorough timeout=900
// @bound every value of i16 presented through serialize_i16 against node int (IntKind::Int); output <= 40 bytes; unwind 18 >= 16 decimal bytes + 2
#[kani::proof]
#[kani::unwind(18)]
#[kani::stub(alloc::fmt::format, crate::verif::stub_format)]
fn c02_int_i16_int() {
	cell_int::<i16>(kani::any(), &nodes::INT, IntKind::Int);
}

// @harness props=C02,C01 tier=quick timeout=900
// @bound every value of i32 presented through serialize_i32 against node int (IntKind::Int); output <= 40 bytes; unwind 18 >= 16 decimal bytes + 2
#[kani::proof]
#[kani::unwind(18)]
#[kani::stub(alloc::fmt::format, crate::verif::stub_format)]
fn c02_int_i32_int() {
	cell_int::<i32>(kani::any(), &nodes::INT, IntKind::Int);
}

// @harness props=C02,C01 tier=quick timeout=900
// @bound every value of i64 presented through serialize_i64 against node int (IntKind::Int); output <= 40 bytes; unwind 18 >= 16 decimal bytes + 2
#[kani::proof]
#[kani::unwind(18)]
#[kani::stub(alloc::fmt::format, crate::verif::stub_format)]
fn c02_int_i64_int() {
	cell_int::<i64>(kani::any(), &nodes::INT, IntKind::Int);
}

// @harness props=C02,C01 tier=quick timeout=900
// @bound every value of i128 presented through serialize_i128 against node int (IntKind::Int); output <= 40 bytes; unwind 18 >= 16 decimal bytes + 2
#[kani::proof]
#[kani::unwind(18)]
#[kani::stub(alloc::fmt::format, crate::verif::stub_format)]
fn c02_int_i128_int() {
	cell_int::<i128>(kani::any(), &nodes::INT, IntKind::Int);
}

// @harness props=C02,C01 tier=quick timeout=900
// @bound every value of u8 presented through serialize_u8 against node int (IntKind::Int); output <= 40 bytes; unwind 18 >= 16 decimal bytes + 2
#[kani::proof]
#[kani::unwind(18)]
#[kani::stub(alloc::fmt::format, crate::verif::stub_format)]
fn c02_int_u8_int() {
	cell_int::<u8>(kani::any(), &nodes::INT, IntKind::Int);
}

// @harness props=C02,C01 tier=thorough timeout=900
// @bound every value of u16 presented through serialize_u16 against node int (IntKind::Int); output <= 40 bytes; unwind 18 >= 16 decimal bytes + 2
#[kani::proof]
#[kani::unwind(18)]
#[kani::stub(alloc::fmt::format, crate::verif::stub_format)]
fn c02_int_u16_int() {
	cell_int::<u16>(kani::any(), &nodes::INT, IntKind::Int);
}

// @harness props=C02,C01 tier=thorough timeout=900
// @bound every value of u32 presented through serialize_u32 against node int (IntKind::Int); output <= 40 bytes; unwind 18 >= 16 decimal bytes + 2
#[kani::proof]
#[kani::unwind(18)]
#[kani::stub(alloc::fmt::format, crate::verif::stub_format)]
fn c02_int_u32_int() {
	cell_int::<u32>(kani::any(), &nodes::INT, IntKind::Int);
}

// @harness props=C02,C01 tier=quick timeout=900
// @bound every value of u64 presented through serialize_u64 against node int (IntKind::Int); output <= 40 bytes; unwind 18 >= 16 decimal bytes + 2
#[kani::proof]
#[kani::unwind(18)]
#[kani::stub(alloc::fmt::format, crate::verif::stub_format)]
fn c02_int_u64_int() {
	cell_int::<u64>(kani::any(), &nodes::INT, IntKind::Int);
}

// @harness props=C02,C01 tier=thorough timeout=900
// @bound every value of u128 presented through serialize_u128 against node int (IntKind::Int); output <= 40 bytes; unwind 18 >= 16 decimal bytes + 2
#[kani::proof]
#[kani::unwind(18)]
#[kani::stub(alloc::fmt::format, crate::verif::stub_format)]
fn c02_int_u128_int() {
	cell_int::<u128>(kani::any(), &nodes::INT, IntKind::Int);
}

// @harness props=C02,C01 tier=thorough timeout=900
// @bound every value of i8 presented through serialize_i8 against node long (IntKind::Long); output <= 40 bytes; unwind 18 >= 16 decimal bytes + 2
#[kani::proof]
#[kani::unwind(18)]
#[kani::stub(alloc::fmt::format, crate::verif::stub_format)]
fn c02_int_i8_long() {
	cell_int::<i8>(kani::any(), &nodes::LONG, IntKind::Long);
}

// @harness props=C02,C01 tier=thorough timeout=900
// @bound every value of i16 presented through serialize_i16 against node long (IntKind::Long); output <= 40 bytes; unwind 18 >= 16 decimal bytes + 2
#[kani::proof]
#[kani::unwind(18)]
#[kani::stub(alloc::fmt::format, crate::verif::stub_format)]
fn c02_int_i16_long() {
	cell_int::<i16>(kani::any(), &nodes::LONG, IntKind::Long);
}

// @harness props=C02,C01 tier=quick timeout=900
// @bound every value of i32 presented through serialize_i32 against node long (IntKind::Long); output <= 40 bytes; unwind 18 >= 16 decimal bytes + 2
#[kani::proof]
#[kani::unwind(18)]
#[kani::stub(alloc::fmt::format, crate::verif::stub_format)]
fn c02_int_i32_long() {
	cell_int::<i32>(kani::any(), &nodes::LONG, IntKind::Long);
}

// @harness props=C02,C01 tier=quick timeout=900
// @bound every value of i64 presented through serialize_i64 against node long (IntKind::Long); output <= 40 bytes; unwind 18 >= 16 decimal bytes + 2
#[kani::proof]
#[kani::unwind(18)]
#[kani::stub(alloc::fmt::format, crate::verif::stub_format)]
fn c02_int_i64_long() {
	cell_int::<i64>(kani::any(), &nodes::LONG, IntKind::Long);
}

// @harness props=C02,C01 tier=quick timeout=900
// @bound every value of i128 presented through serialize_i128 against node long (IntKind::Long); output <= 40 bytes; unwind 18 >= 16 decimal bytes + 2
#[kani::proof]
#[kani::unwind(18)]
#[kani::stub(alloc::fmt::format, crate::verif::stub_format)]
fn c02_int_i128_long() {
	cell_int::<i128>(kani::any(), &nodes::LONG, IntKind::Long);
}

// @harness props=C02,C01 tier=quick timeout=900
// @bound every value of u8 presented through serialize_u8 against node long (IntKind::Long); output <= 40 bytes; unwind 18 >= 16 decimal bytes + 2
#[kani::proof]
#[kani::unwind(18)]
#[kani::stub(alloc::fmt::format, crate::verif::stub_format)]
fn c02_int_u8_long() {
	cell_int::<u8>(kani::any(), &nodes::LONG, IntKind::Long);
}

// @harness props=C02,C01 tier=thorough timeout=900
// @bound every value of u16 presented through serialize_u16 against node long (IntKind::Long); output <= 40 bytes; unwind 18 >= 16 decimal bytes + 2
#[kani::proof]
#[kani::unwind(18)]
#[kani::stub(alloc::fmt::format, crate::verif::stub_format)]
fn c02_int_u16_long() {
	cell_int::<u16>(kani::any(), &nodes::LONG, IntKind::Long);
}

// @harness props=C02,C01 tier=thorough timeout=900
// @bound every value of u32 presented through serialize_u32 against node long (IntKind::Long); output <= 40 bytes; unwind 18 >= 16 decimal bytes + 2
#[kani::proof]
#[kani::unwind(18)]
#[kani::stub(alloc::fmt::format, crate::verif::stub_format)]
fn c02_int_u32_long() {
	cell_int::<u32>(kani::any(), &nodes::LONG, IntKind::Long);
}

// @harness props=C02,C01 tier=quick timeout=900
// @bound every value of u64 presented through serialize_u64 against node long (IntKind::Long); output <= 40 bytes; unwind 18 >= 16 decimal bytes + 2
#[kani::proof]
#[kani::unwind(18)]
#[kani::stub(alloc::fmt::format, crate::verif::stub_format)]
fn c02_int_u64_long() {
	cell_int::<u64>(kani::any(), &nodes::LONG, IntKind::Long);
}

// @harness props=C02,C01 tier=thorough timeout=900
// @bound every value of u128 presented through serialize_u128 against node long (IntKind::Long); output <= 40 bytes; unwind 18 >= 16 decimal bytes + 2
#[kani::proof]
#[kani::unwind(18)]
#[kani::stub(alloc::fmt::format, crate::verif::stub_format)]
fn c02_int_u128_long() {
	cell_int::<u128>(kani::any(), &nodes::LONG, IntKind::Long);
}

// @harness props=C02,C01 tier=thorough timeout=900
// @bound every value of i64 presented through serialize_i64 against node date (IntKind::Int); output <= 40 bytes; unwind 18 >= 16 decimal bytes + 2
#[kani::proof]
#[kani::unwind(18)]
#[kani::stub(alloc::fmt::format, crate::verif::stub_format)]
fn c02_int_i64_date() {
	cell_int::<i64>(kani::any(), &nodes::DATE, IntKind::Int);
}

// @harness props=C02,C01 tier=thorough timeout=900
// @bound every value of u32 presented through serialize_u32 against node date (IntKind::Int); output <= 40 bytes; unwind 18 >= 16 decimal bytes + 2
#[kani::proof]
#[kani::unwind(18)]
#[kani::stub(alloc::fmt::format, crate::verif::stub_format)]
fn c02_int_u32_date() {
	cell_int::<u32>(kani::any(), &nodes::DATE, IntKind::Int);
}

// @harness props=C02,C01 tier=thorough timeout=900
// @bound every value of i64 presented through serialize_i64 against node time_millis (IntKind::Int); output <= 40 bytes; unwind 18 >= 16 decimal bytes + 2
#[kani::proof]
#[kani::unwind(18)]
#[kani::stub(alloc::fmt::format, crate::verif::stub_format)]
fn c02_int_i64_time_millis() {
	cell_int::<i64>(kani::any(), &nodes::TIME_MILLIS, IntKind::Int);
}

// @harness props=C02,C01 tier=thorough timeout=900
// @bound every value of u32 presented through serialize_u32 against node time_millis (IntKind::Int); output <= 40 bytes; unwind 18 >= 16 decimal bytes + 2
#[kani::proof]
#[kani::unwind(18)]
#[kani::stub(alloc::fmt::format, crate::verif::stub_format)]
fn c02_int_u32_time_millis() {
	cell_int::<u32>(kani::any(), &nodes::TIME_MILLIS, IntKind::Int);
}

// @harness props=C02,C01 tier=thorough timeout=900
// @bound every value of i64 presented through serialize_i64 against node time_micros (IntKind::Long); output <= 40 bytes; unwind 18 >= 16 decimal bytes + 2
#[kani::proof]
#[kani::unwind(18)]
#[kani::stub(alloc::fmt::format, crate::verif::stub_format)]
fn c02_int_i64_time_micros() {
	cell_int::<i64>(kani::any(), &nodes::TIME_MICROS, IntKind::Long);
}

// @harness props=C02,C01 tier=thorough timeout=900
// @bound every value of u32 presented through serialize_u32 against node time_micros (IntKind::Long); output <= 40 bytes; unwind 18 >= 16 decimal bytes + 2
#[kani::proof]
#[kani::unwind(18)]
#[kani::stub(alloc::fmt::format, crate::verif::stub_format)]
fn c02_int_u32_time_micros() {
	cell_int::<u32>(kani::any(), &nodes::TIME_MICROS, IntKind::Long);
}

// @harness props=C02,C01 tier=thorough timeout=900
// @bound every value of i64 presented through serialize_i64 against node ts_millis (IntKind::Long); output <= 40 bytes; unwind 18 >= 16 decimal bytes + 2
#[kani::proof]
#[kani::unwind(18)]
#[kani::stub(alloc::fmt::format, crate::verif::stub_format)]
fn c02_int_i64_ts_millis() {
	cell_int::<i64>(kani::any(), &nodes::TS_MILLIS, IntKind::Long);
}

// @harness props=C02,C01 tier=thorough timeout=900
// @bound every value of u32 presented through serialize_u32 against node ts_millis (IntKind::Long); output <= 40 bytes; unwind 18 >= 16 decimal bytes + 2
#[kani::proof]
#[kani::unwind(18)]
#[kani::stub(alloc::fmt::format, crate::verif::stub_format)]
fn c02_int_u32_ts_millis() {
	cell_int::<u32>(kani::any(), &nodes::TS_MILLIS, IntKind::Long);
}

// @harness props=C02,C01 tier=thorough timeout=900
// @bound every value of i64 presented through serialize_i64 against node ts_micros (IntKind::Long); output <= 40 bytes; unwind 18 >= 16 decimal bytes + 2
#[kani::proof]
#[kani::unwind(18)]
#[kani::stub(alloc::fmt::format, crate::verif::stub_format)]
fn c02_int_i64_ts_micros() {
	cell_int::<i64>(kani::any(), &nodes::TS_MICROS, IntKind::Long);
}

// @harness props=C02,C01 tier=thorough timeout=900
// @bound every value of u32 presented through serialize_u32 against node ts_micros (IntKind::Long); output <= 40 bytes; unwind 18 >= 16 decimal bytes + 2
#[kani::proof]
#[kani::unwind(18)]
#[kani::stub(alloc::fmt::format, crate::verif::stub_format)]
fn c02_int_u32_ts_micros() {
	cell_int::<u32>(kani::any(), &nodes::TS_MICROS, IntKind::Long);
}

// @harness props=C02,C01 tier=thorough timeout=900
// @bound every value of i8 presented through serialize_i8 against node enum2 (IntKind::Enum(2)); output <= 40 bytes; unwind 18 >= 16 decimal bytes + 2
#[kani::proof]
#[kani::unwind(18)]
#[kani::stub(alloc::fmt::format, crate::verif::stub_format)]
fn c02_int_i8_enum2() {
	crate::verif::enum_node!(e = "e", None; ["a", "b"]);
	cell_int::<i8>(kani::any(), e, IntKind::Enum(2));
}

// @harness props=C02,C01 tier=thorough timeout=900
// @bound every value of i16 presented through serialize_i16 against node enum2 (IntKind::Enum(2)); output <= 40 bytes; unwind 18 >= 16 decimal bytes + 2
#[kani::proof]
#[kani::unwind(18)]
#[kani::stub(alloc::fmt::format, crate::verif::stub_format)]
fn c02_int_i16_enum2() {
	crate::verif::enum_node!(e = "e", None; ["a", "b"]);
	cell_int::<i16>(kani::any(), e, IntKind::Enum(2));
}

// @harness props=C02,C01 tier=quick timeout=900
// @bound every value of i32 presented through serialize_i32 against node enum2 (IntKind::Enum(2)); output <= 40 bytes; unwind 18 >= 16 decimal bytes + 2
#[kani::proof]
#[kani::unwind(18)]
#[kani::stub(alloc::fmt::format, crate::verif::stub_format)]
fn c02_int_i32_enum2() {
	crate::verif::enum_node!(e = "e", None; ["a", "b"]);
	cell_int::<i32>(kani::any(), e, IntKind::Enum(2));
}

// @harness props=C02,C01 tier=quick timeout=900
// @bound every value of i64 presented through serialize_i64 against node enum2 (IntKind::Enum(2)); output <= 40 bytes; unwind 18 >= 16 decimal bytes + 2
#[kani::proof]
#[kani::unwind(18)]
#[kani::stub(alloc::fmt::format, crate::verif::stub_format)]
fn c02_int_i64_enum2() {
	crate::verif::enum_node!(e = "e", None; ["a", "b"]);
	cell_int::<i64>(kani::any(), e, IntKind::Enum(2));
}

// @harness props=C02,C01 tier=quick timeout=900
// @bound every value of i128 presented through serialize_i128 against node enum2 (IntKind::Enum(2)); output <= 40 bytes; unwind 18 >= 16 decimal bytes + 2
#[kani::proof]
#[kani::unwind(18)]
#[kani::stub(alloc::fmt::format, crate::verif::stub_format)]
fn c02_int_i128_enum2() {
	crate::verif::enum_node!(e = "e", None; ["a", "b"]);
	cell_int::<i128>(kani::any(), e, IntKind::Enum(2));
}

// @harness props=C02,C01 tier=quick timeout=900
// @bound every value of u8 presented through serialize_u8 against node enum2 (IntKind::Enum(2)); output <= 40 bytes; unwind 18 >= 16 decimal bytes + 2
#[kani::proof]
#[kani::unwind(18)]
#[kani::stub(alloc::fmt::format, crate::verif::stub_format)]
fn c02_int_u8_enum2() {
	crate::verif::enum_node!(e = "e", None; ["a", "b"]);
	cell_int::<u8>(kani::any(), e, IntKind::Enum(2));
}

// @harness props=C02,C01 tier=thorough timeout=900
// @bound every value of u16 presented through serialize_u16 against node enum2 (IntKind::Enum(2)); output <= 40 bytes; unwind 18 >= 16 decimal bytes + 2
#[kani::proof]
#[kani::unwind(18)]
#[kani::stub(alloc::fmt::format, crate::verif::stub_format)]
fn c02_int_u16_enum2() {
	crate::verif::enum_node!(e = "e", None; ["a", "b"]);
	cell_int::<u16>(kani::any(), e, IntKind::Enum(2));
}

// @harness props=C02,C01 tier=thorough timeout=900
// @bound every value of u32 presented through serialize_u32 against node enum2 (IntKind::Enum(2)); output <= 40 bytes; unwind 18 >= 16 decimal bytes + 2
#[kani::proof]
#[kani::unwind(18)]
#[kani::stub(alloc::fmt::format, crate::verif::stub_format)]
fn c02_int_u32_enum2() {
	crate::verif::enum_node!(e = "e", None; ["a", "b"]);
	cell_int::<u32>(kani::any(), e, IntKind::Enum(2));
}

// @harness props=C02,C01 tier=quick timeout=900
// @bound every value of u64 presented through serialize_u64 against node enum2 (IntKind::Enum(2)); output <= 40 bytes; unwind 18 >= 16 decimal bytes + 2
#[kani::proof]
#[kani::unwind(18)]
#[kani::stub(alloc::fmt::format, crate::verif::stub_format)]
fn c02_int_u64_enum2() {
	crate::verif::enum_node!(e = "e", None; ["a", "b"]);
	cell_int::<u64>(kani::any(), e, IntKind::Enum(2));
}

// @harness props=C02,C01 tier=thorough timeout=900
// @bound every value of u128 presented through serialize_u128 against node enum2 (IntKind::Enum(2)); output <= 40 bytes; unwind 18 >= 16 decimal bytes + 2
#[kani::proof]
#[kani::unwind(18)]
#[kani::stub(alloc::fmt::format, crate::verif::stub_format)]
fn c02_int_u128_enum2() {
	crate::verif::enum_node!(e = "e", None; ["a", "b"]);
	cell_int::<u128>(kani::any(), e, IntKind::Enum(2));
}

// @harness props=C02,C01 tier=thorough timeout=900
// @bound every value of i8 presented through serialize_i8 against node decb0 (IntKind::DecBytes(0)); output <= 40 bytes; unwind 18 >= 16 decimal bytes + 2
#[kani::proof]
#[kani::unwind(18)]
#[kani::stub(alloc::fmt::format, crate::verif::stub_format)]
fn c02_int_i8_decb0() {
	crate::verif::stack_node!(d = nodes::dec_bytes(0));
	cell_int::<i8>(kani::any(), d, IntKind::DecBytes(0));
}

// @harness props=C02,C01 tier=thorough timeout=900
// @bound every value of i16 presented through serialize_i16 against node decb0 (IntKind::DecBytes(0)); output <= 40 bytes; unwind 18 >= 16 decimal bytes + 2
#[kani::proof]
#[kani::unwind(18)]
#[kani::stub(alloc::fmt::format, crate::verif::stub_format)]
fn c02_int_i16_decb0() {
	crate::verif::stack_node!(d = nodes::dec_bytes(0));
	cell_int::<i16>(kani::any(), d, IntKind::DecBytes(0));
}

// @harness props=C02,C01 tier=quick timeout=900
// @bound every value of i32 presented through serialize_i32 against node decb0 (IntKind::DecBytes(0)); output <= 40 bytes; unwind 18 >= 16 decimal bytes + 2
#[kani::proof]
#[kani::unwind(18)]
#[kani::stub(alloc::fmt::format, crate::verif::stub_format)]
fn c02_int_i32_decb0() {
	crate::verif::stack_node!(d = nodes::dec_bytes(0));
	cell_int::<i32>(kani::any(), d, IntKind::DecBytes(0));
}

// @harness props=C02,C01 tier=quick timeout=900
// @bound every value of i64 presented through serialize_i64 against node decb0 (IntKind::DecBytes(0)); output <= 40 bytes; unwind 18 >= 16 decimal bytes + 2
#[kani::proof]
#[kani::unwind(18)]
#[kani::stub(alloc::fmt::format, crate::verif::stub_format)]
fn c02_int_i64_decb0() {
	crate::verif::stack_node!(d = nodes::dec_bytes(0));
	cell_int::<i64>(kani::any(), d, IntKind::DecBytes(0));
}

// @harness props=C02,C01 tier=quick timeout=900
// @bound every value of i128 presented through serialize_i128 against node decb0 (IntKind::DecBytes(0)); output <= 40 bytes; unwind 18 >= 16 decimal bytes + 2
#[kani::proof]
#[kani::unwind(18)]
#[kani::stub(alloc::fmt::format, crate::verif::stub_format)]
fn c02_int_i128_decb0() {
	crate::verif::stack_node!(d = nodes::dec_bytes(0));
	cell_int::<i128>(kani::any(), d, IntKind::DecBytes(0));
}

// @harness props=C02,C01 tier=quick timeout=900
// @bound every value of u8 presented through serialize_u8 against node decb0 (IntKind::DecBytes(0)); output <= 40 bytes; unwind 18 >= 16 decimal bytes + 2
#[kani::proof]
#[kani::unwind(18)]
#[kani::stub(alloc::fmt::format, crate::verif::stub_format)]
fn c02_int_u8_decb0() {
	crate::verif::stack_node!(d = nodes::dec_bytes(0));
	cell_int::<u8>(kani::any(), d, IntKind::DecBytes(0));
}

// @harness props=C02,C01 tier=thorough timeout=900
// @bound every value of u16 presented through serialize_u16 against node decb0 (IntKind::DecBytes(0)); output <= 40 bytes; unwind 18 >= 16 decimal bytes + 2
#[kani::proof]
#[kani::unwind(18)]
#[kani::stub(alloc::fmt::format, crate::verif::stub_format)]
fn c02_int_u16_decb0() {
	crate::verif::stack_node!(d = nodes::dec_bytes(0));
	cell_int::<u16>(kani::any(), d, IntKind::DecBytes(0));
}

// @harness props=C02,C01 tier=thorough timeout=900
// @bound every value of u32 presented through serialize_u32 against node decb0 (IntKind::DecBytes(0)); output <= 40 bytes; unwind 18 >= 16 decimal bytes + 2
#[kani::proof]
#[kani::unwind(18)]
#[kani::stub(alloc::fmt::format, crate::verif::stub_format)]
fn c02_int_u32_decb0() {
	crate::verif::stack_node!(d = nodes::dec_bytes(0));
	cell_int::<u32>(kani::any(), d, IntKind::DecBytes(0));
}

// @harness props=C02,C01 tier=quick timeout=900
// @bound every value of u64 presented through serialize_u64 against node decb0 (IntKind::DecBytes(0)); output <= 40 bytes; unwind 18 >= 16 decimal bytes + 2
#[kani::proof]
#[kani::unwind(18)]
#[kani::stub(alloc::fmt::format, crate::verif::stub_format)]
fn c02_int_u64_decb0() {
	crate::verif::stack_node!(d = nodes::dec_bytes(0));
	cell_int::<u64>(kani::any(), d, IntKind::DecBytes(0));
}

// @harness props=C02,C01 tier=thorough timeout=900
// @bound every value of u128 presented through serialize_u128 against node decb0 (IntKind::DecBytes(0)); output <= 40 bytes; unwind 18 >= 16 decimal bytes + 2
#[kani::proof]
#[kani::unwind(18)]
#[kani::stub(alloc::fmt::format, crate::verif::stub_format)]
fn c02_int_u128_decb0() {
	crate::verif::stack_node!(d = nodes::dec_bytes(0));
	cell_int::<u128>(kani::any(), d, IntKind::DecBytes(0));
}

// @harness props=C02,C01 tier=thorough timeout=900
// @bound every value of i8 presented through serialize_i8 against node decb2 (IntKind::DecBytes(2)); output <= 40 bytes; unwind 18 >= 16 decimal bytes + 2
#[kani::proof]
#[kani::unwind(18)]
#[kani::stub(alloc::fmt::format, crate::verif::stub_format)]
fn c02_int_i8_decb2() {
	crate::verif::stack_node!(d = nodes::dec_bytes(2));
	cell_int::<i8>(kani::any(), d, IntKind::DecBytes(2));
}

// @harness props=C02,C01 tier=thorough timeout=900
// @bound every value of i16 presented through serialize_i16 against node decb2 (IntKind::DecBytes(2)); output <= 40 bytes; unwind 18 >= 16 decimal bytes + 2
#[kani::proof]
#[kani::unwind(18)]
#[kani::stub(alloc::fmt::format, crate::verif::stub_format)]
fn c02_int_i16_decb2() {
	crate::verif::stack_node!(d = nodes::dec_bytes(2));
	cell_int::<i16>(kani::any(), d, IntKind::DecBytes(2));
}

// @harness props=C02,C01 tier=quick timeout=900
// @bound every value of i32 presented through serialize_i32 against node decb2 (IntKind::DecBytes(2)); output <= 40 bytes; unwind 18 >= 16 decimal bytes + 2
#[kani::proof]
#[kani::unwind(18)]
#[kani::stub(alloc::fmt::format, crate::verif::stub_format)]
fn c02_int_i32_decb2() {
	crate::verif::stack_node!(d = nodes::dec_bytes(2));
	cell_int::<i32>(kani::any(), d, IntKind::DecBytes(2));
}

// @harness props=C02,C01 tier=quick timeout=900
// @bound every value of i64 presented through serialize_i64 against node decb2 (IntKind::DecBytes(2)); output <= 40 bytes; unwind 18 >= 16 decimal bytes + 2
#[kani::proof]
#[kani::unwind(18)]
#[kani::stub(alloc::fmt::format, crate::verif::stub_format)]
fn c02_int_i64_decb2() {
	crate::verif::stack_node!(d = nodes::dec_bytes(2));
	cell_int::<i64>(kani::any(), d, IntKind::DecBytes(2));
}

// @harness props=C02,C01 tier=quick timeout=900
// @bound every value of i128 presented through serialize_i128 against node decb2 (IntKind::DecBytes(2)); output <= 40 bytes; unwind 18 >= 16 decimal bytes + 2
#[kani::proof]
#[kani::unwind(18)]
#[kani::stub(alloc::fmt::format, crate::verif::stub_format)]
fn c02_int_i128_decb2() {
	crate::verif::stack_node!(d = nodes::dec_bytes(2));
	cell_int::<i128>(kani::any(), d, IntKind::DecBytes(2));
}

// @harness props=C02,C01 tier=quick timeout=900
// @bound every value of u8 presented through serialize_u8 against node decb2 (IntKind::DecBytes(2)); output <= 40 bytes; unwind 18 >= 16 decimal bytes + 2
#[kani::proof]
#[kani::unwind(18)]
#[kani::stub(alloc::fmt::format, crate::verif::stub_format)]
fn c02_int_u8_decb2() {
	crate::verif::stack_node!(d = nodes::dec_bytes(2));
	cell_int::<u8>(kani::any(), d, IntKind::DecBytes(2));
}

// @harness props=C02,C01 tier=thorough timeout=900
// @bound every value of u16 presented through serialize_u16 against node decb2 (IntKind::DecBytes(2)); output <= 40 bytes; unwind 18 >= 16 decimal bytes + 2
#[kani::proof]
#[kani::unwind(18)]
#[kani::stub(alloc::fmt::format, crate::verif::stub_format)]
fn c02_int_u16_decb2() {
	crate::verif::stack_node!(d = nodes::dec_bytes(2));
	cell_int::<u16>(kani::any(), d, IntKind::DecBytes(2));
}

// @harness props=C02,C01 tier=thorough timeout=900
// @bound every value of u32 presented through serialize_u32 against node decb2 (IntKind::DecBytes(2)); output <= 40 bytes; unwind 18 >= 16 decimal bytes + 2
#[kani::proof]
#[kani::unwind(18)]
#[kani::stub(alloc::fmt::format, crate::verif::stub_format)]
fn c02_int_u32_decb2() {
	crate::verif::stack_node!(d = nodes::dec_bytes(2));
	cell_int::<u32>(kani::any(), d, IntKind::DecBytes(2));
}

// @harness props=C02,C01 tier=quick timeout=900
// @bound every value of u64 presented through serialize_u64 against node decb2 (IntKind::DecBytes(2)); output <= 40 bytes; unwind 18 >= 16 decimal bytes + 2
#[kani::proof]
#[kani::unwind(18)]
#[kani::stub(alloc::fmt::format, crate::verif::stub_format)]
fn c02_int_u64_decb2() {
	crate::verif::stack_node!(d = nodes::dec_bytes(2));
	cell_int::<u64>(kani::any(), d, IntKind::DecBytes(2));
}

// @harness props=C02,C01 tier=thorough timeout=900
// @bound every value of u128 presented through serialize_u128 against node decb2 (IntKind::DecBytes(2)); output <= 40 bytes; unwind 18 >= 16 decimal bytes + 2
#[kani::proof]
#[kani::unwind(18)]
#[kani::stub(alloc::fmt::format, crate::verif::stub_format)]
fn c02_int_u128_decb2() {
	crate::verif::stack_node!(d = nodes::dec_bytes(2));
	cell_int::<u128>(kani::any(), d, IntKind::DecBytes(2));
}

// @harness props=C02,C01 tier=thorough timeout=900
// @bound every value of i8 presented through serialize_i8 against node decf0_0 (IntKind::DecFixed(0, 0)); output <= 40 bytes; unwind 18 >= 16 decimal bytes + 2
#[kani::proof]
#[kani::unwind(18)]
#[kani::stub(alloc::fmt::format, crate::verif::stub_format)]
fn c02_int_i8_decf0_0() {
	crate::verif::stack_node!(d = nodes::dec_fixed(0, 0));
	cell_int::<i8>(kani::any(), d, IntKind::DecFixed(0, 0));
}

// @harness props=C02,C01 tier=thorough timeout=900
// @bound every value of i16 presented through serialize_i16 against node decf0_0 (IntKind::DecFixed(0, 0)); output <= 40 bytes; unwind 18 >= 16 decimal bytes + 2
#[kani::proof]
#[kani::unwind(18)]
#[kani::stub(alloc::fmt::format, crate::verif::stub_format)]
fn c02_int_i16_decf0_0() {
	crate::verif::stack_node!(d = nodes::dec_fixed(0, 0));
	cell_int::<i16>(kani::any(), d, IntKind::DecFixed(0, 0));
}

// @harness props=C02,C01 tier=thorough timeout=900
// @bound every value of i32 presented through serialize_i32 against node decf0_0 (IntKind::DecFixed(0, 0)); output <= 40 bytes; unwind 18 >= 16 decimal bytes + 2
#[kani::proof]
#[kani::unwind(18)]
#[kani::stub(alloc::fmt::format, crate::verif::stub_format)]
fn c02_int_i32_decf0_0() {
	crate::verif::stack_node!(d = nodes::dec_fixed(0, 0));
	cell_int::<i32>(kani::any(), d, IntKind::DecFixed(0, 0));
}

// @harness props=C02,C01 tier=thorough timeout=900
// @bound every value of i64 presented through serialize_i64 against node decf0_0 (IntKind::DecFixed(0, 0)); output <= 40 bytes; unwind 18 >= 16 decimal bytes + 2
#[kani::proof]
#[kani::unwind(18)]
#[kani::stub(alloc::fmt::format, crate::verif::stub_format)]
fn c02_int_i64_decf0_0() {
	crate::verif::stack_node!(d = nodes::dec_fixed(0, 0));
	cell_int::<i64>(kani::any(), d, IntKind::DecFixed(0, 0));
}

// @harness props=C02,C01 tier=thorough timeout=900
// @bound every value of i128 presented through serialize_i128 against node decf0_0 (IntKind::DecFixed(0, 0)); output <= 40 bytes; unwind 18 >= 16 decimal bytes + 2
#[kani::proof]
#[kani::unwind(18)]
#[kani::stub(alloc::fmt::format, crate::verif::stub_format)]
fn c02_int_i128_decf0_0() {
	crate::verif::stack_node!(d = nodes::dec_fixed(0, 0));
	cell_int::<i128>(kani::any(), d, IntKind::DecFixed(0, 0));
}

// @harness props=C02,C01 tier=thorough timeout=900
// @bound every value of u8 presented through serialize_u8 against node decf0_0 (IntKind::DecFixed(0, 0)); output <= 40 bytes; unwind 18 >= 16 decimal bytes + 2
#[kani::proof]
#[kani::unwind(18)]
#[kani::stub(alloc::fmt::format, crate::verif::stub_format)]
fn c02_int_u8_decf0_0() {
	crate::verif::stack_node!(d = nodes::dec_fixed(0, 0));
	cell_int::<u8>(kani::any(), d, IntKind::DecFixed(0, 0));
}

// @harness props=C02,C01 tier=thorough timeout=900
// @bound every value of u16 presented through serialize_u16 against node decf0_0 (IntKind::DecFixed(0, 0)); output <= 40 bytes; unwind 18 >= 16 decimal bytes + 2
#[kani::proof]
#[kani::unwind(18)]
#[kani::stub(alloc::fmt::format, crate::verif::stub_format)]
fn c02_int_u16_decf0_0() {
	crate::verif::stack_node!(d = nodes::dec_fixed(0, 0));
	cell_int::<u16>(kani::any(), d, IntKind::DecFixed(0, 0));
}

// @harness props=C02,C01 tier=thorough timeout=900
// @bound every value of u32 presented through serialize_u32 against node decf0_0 (IntKind::DecFixed(0, 0)); output <= 40 bytes; unwind 18 >= 16 decimal bytes + 2
#[kani::proof]
#[kani::unwind(18)]
#[kani::stub(alloc::fmt::format, crate::verif::stub_format)]
fn c02_int_u32_decf0_0() {
	crate::verif::stack_node!(d = nodes::dec_fixed(0, 0));
	cell_int::<u32>(kani::any(), d, IntKind::DecFixed(0, 0));
}

// @harness props=C02,C01 tier=thorough timeout=900
// @bound every value of u64 presented through serialize_u64 against node decf0_0 (IntKind::DecFixed(0, 0)); output <= 40 bytes; unwind 18 >= 16 decimal bytes + 2
#[kani::proof]
#[kani::unwind(18)]
#[kani::stub(alloc::fmt::format, crate::verif::stub_format)]
fn c02_int_u64_decf0_0() {
	crate::verif::stack_node!(d = nodes::dec_fixed(0, 0));
	cell_int::<u64>(kani::any(), d, IntKind::DecFixed(0, 0));
}

// @harness props=C02,C01 tier=thorough timeout=900
// @bound every value of u128 presented through serialize_u128 against node decf0_0 (IntKind::DecFixed(0, 0)); output <= 40 bytes; unwind 18 >= 16 decimal bytes + 2
#[kani::proof]
#[kani::unwind(18)]
#[kani::stub(alloc::fmt::format, crate::verif::stub_format)]
fn c02_int_u128_decf0_0() {
	crate::verif::stack_node!(d = nodes::dec_fixed(0, 0));
	cell_int::<u128>(kani::any(), d, IntKind::DecFixed(0, 0));
}

// @harness props=C02,C01 tier=thorough timeout=900
// @bound every value of i8 presented through serialize_i8 against node decf1_0 (IntKind::DecFixed(1, 0)); output <= 40 bytes; unwind 18 >= 16 decimal bytes + 2
#[kani::proof]
#[kani::unwind(18)]
#[kani::stub(alloc::fmt::format, crate::verif::stub_format)]
fn c02_int_i8_decf1_0() {
	crate::verif::stack_node!(d = nodes::dec_fixed(1, 0));
	cell_int::<i8>(kani::any(), d, IntKind::DecFixed(1, 0));
}

// @harness props=C02,C01 tier=thorough timeout=900
// @bound every value of i16 presented through serialize_i16 against node decf1_0 (IntKind::DecFixed(1, 0)); output <= 40 bytes; unwind 18 >= 16 decimal bytes + 2
#[kani::proof]
#[kani::unwind(18)]
#[kani::stub(alloc::fmt::format, crate::verif::stub_format)]
fn c02_int_i16_decf1_0() {
	crate::verif::stack_node!(d = nodes::dec_fixed(1, 0));
	cell_int::<i16>(kani::any(), d, IntKind::DecFixed(1, 0));
}

// @harness props=C02,C01 tier=quick timeout=900
// @bound every value of i32 presented through serialize_i32 against node decf1_0 (IntKind::DecFixed(1, 0)); output <= 40 bytes; unwind 18 >= 16 decimal bytes + 2
#[kani::proof]
#[kani::unwind(18)]
#[kani::stub(alloc::fmt::format, crate::verif::stub_format)]
fn c02_int_i32_decf1_0() {
	crate::verif::stack_node!(d = nodes::dec_fixed(1, 0));
	cell_int::<i32>(kani::any(), d, IntKind::DecFixed(1, 0));
}

// @harness props=C02,C01 tier=quick timeout=900
// @bound every value of i64 presented through serialize_i64 against node decf1_0 (IntKind::DecFixed(1, 0)); output <= 40 bytes; unwind 18 >= 16 decimal bytes + 2
#[kani::proof]
#[kani::unwind(18)]
#[kani::stub(alloc::fmt::format, crate::verif::stub_format)]
fn c02_int_i64_decf1_0() {
	crate::verif::stack_node!(d = nodes::dec_fixed(1, 0));
	cell_int::<i64>(kani::any(), d, IntKind::DecFixed(1, 0));
}

// @harness props=C02,C01 tier=quick timeout=900
// @bound every value of i128 presented through serialize_i128 against node decf1_0 (IntKind::DecFixed(1, 0)); output <= 40 bytes; unwind 18 >= 16 decimal bytes + 2
#[kani::proof]
#[kani::unwind(18)]
#[kani::stub(alloc::fmt::format, crate::verif::stub_format)]
fn c02_int_i128_decf1_0() {
	crate::verif::stack_node!(d = nodes::dec_fixed(1, 0));
	cell_int::<i128>(kani::any(), d, IntKind::DecFixed(1, 0));
}

// @harness props=C02,C01 tier=quick timeout=900
// @bound every value of u8 presented through serialize_u8 against node decf1_0 (IntKind::DecFixed(1, 0)); output <= 40 bytes; unwind 18 >= 16 decimal bytes + 2
#[kani::proof]
#[kani::unwind(18)]
#[kani::stub(alloc::fmt::format, crate::verif::stub_format)]
fn c02_int_u8_decf1_0() {
	crate::verif::stack_node!(d = nodes::dec_fixed(1, 0));
	cell_int::<u8>(kani::any(), d, IntKind::DecFixed(1, 0));
}

// @harness props=C02,C01 tier=thorough timeout=900
// @bound every value of u16 presented through serialize_u16 against node decf1_0 (IntKind::DecFixed(1, 0)); output <= 40 bytes; unwind 18 >= 16 decimal bytes + 2
#[kani::proof]
#[kani::unwind(18)]
#[kani::stub(alloc::fmt::format, crate::verif::stub_format)]
fn c02_int_u16_decf1_0() {
	crate::verif::stack_node!(d = nodes::dec_fixed(1, 0));
	cell_int::<u16>(kani::any(), d, IntKind::DecFixed(1, 0));
}

// @harness props=C02,C01 tier=thorough timeout=900
// @bound every value of u32 presented through serialize_u32 against node decf1_0 (IntKind::DecFixed(1, 0)); output <= 40 bytes; unwind 18 >= 16 decimal bytes + 2
#[kani::proof]
#[kani::unwind(18)]
#[kani::stub(alloc::fmt::format, crate::verif::stub_format)]
fn c02_int_u32_decf1_0() {
	crate::verif::stack_node!(d = nodes::dec_fixed(1, 0));
	cell_int::<u32>(kani::any(), d, IntKind::DecFixed(1, 0));
}

// @harness props=C02,C01 tier=quick timeout=900
// @bound every value of u64 presented through serialize_u64 against node decf1_0 (IntKind::DecFixed(1, 0)); output <= 40 bytes; unwind 18 >= 16 decimal bytes + 2
#[kani::proof]
#[kani::unwind(18)]
#[kani::stub(alloc::fmt::format, crate::verif::stub_format)]
fn c02_int_u64_decf1_0() {
	crate::verif::stack_node!(d = nodes::dec_fixed(1, 0));
	cell_int::<u64>(kani::any(), d, IntKind::DecFixed(1, 0));
}

// @harness props=C02,C01 tier=thorough timeout=900
// @bound every value of u128 presented through serialize_u128 against node decf1_0 (IntKind::DecFixed(1, 0)); output <= 40 bytes; unwind 18 >= 16 decimal bytes + 2
#[kani::proof]
#[kani::unwind(18)]
#[kani::stub(alloc::fmt::format, crate::verif::stub_format)]
fn c02_int_u128_decf1_0() {
	crate::verif::stack_node!(d = nodes::dec_fixed(1, 0));
	cell_int::<u128>(kani::any(), d, IntKind::DecFixed(1, 0));
}

// @harness props=C02,C01 tier=thorough timeout=900
// @bound every value of i8 presented through serialize_i8 against node decf2_0 (IntKind::DecFixed(2, 0)); output <= 40 bytes; unwind 18 >= 16 decimal bytes + 2
#[kani::proof]
#[kani::unwind(18)]
#[kani::stub(alloc::fmt::format, crate::verif::stub_format)]
fn c02_int_i8_decf2_0() {
	crate::verif::stack_node!(d = nodes::dec_fixed(2, 0));
	cell_int::<i8>(kani::any(), d, IntKind::DecFixed(2, 0));
}

// @harness props=C02,C01 tier=thorough timeout=900
// @bound every value of i16 presented through serialize_i16 against node decf2_0 (IntKind::DecFixed(2, 0)); output <= 40 bytes; unwind 18 >= 16 decimal bytes + 2
#[kani::proof]
#[kani::unwind(18)]
#[kani::stub(alloc::fmt::format, crate::verif::stub_format)]
fn c02_int_i16_decf2_0() {
	crate::verif::stack_node!(d = nodes::dec_fixed(2, 0));
	cell_int::<i16>(kani::any(), d, IntKind::DecFixed(2, 0));
}

// @harness props=C02,C01 tier=thorough timeout=900
// @bound every value of i32 presented through serialize_i32 against node decf2_0 (IntKind::DecFixed(2, 0)); output <= 40 bytes; unwind 18 >= 16 decimal bytes + 2
#[kani::proof]
#[kani::unwind(18)]
#[kani::stub(alloc::fmt::format, crate::verif::stub_format)]
fn c02_int_i32_decf2_0() {
	crate::verif::stack_node!(d = nodes::dec_fixed(2, 0));
	cell_int::<i32>(kani::any(), d, IntKind::DecFixed(2, 0));
}

// @harness props=C02,C01 tier=thorough timeout=900
// @bound every value of i64 presented through serialize_i64 against node decf2_0 (IntKind::DecFixed(2, 0)); output <= 40 bytes; unwind 18 >= 16 decimal bytes + 2
#[kani::proof]
#[kani::unwind(18)]
#[kani::stub(alloc::fmt::format, crate::verif::stub_format)]
fn c02_int_i64_decf2_0() {
	crate::verif::stack_node!(d = nodes::dec_fixed(2, 0));
	cell_int::<i64>(kani::any(), d, IntKind::DecFixed(2, 0));
}

// @harness props=C02,C01 tier=thorough timeout=900
// @bound every value of i128 presented through serialize_i128 against node decf2_0 (IntKind::DecFixed(2, 0)); output <= 40 bytes; unwind 18 >= 16 decimal bytes + 2
#[kani::proof]
#[kani::unwind(18)]
#[kani::stub(alloc::fmt::format, crate::verif::stub_format)]
fn c02_int_i128_decf2_0() {
	crate::verif::stack_node!(d = nodes::dec_fixed(2, 0));
	cell_int::<i128>(kani::any(), d, IntKind::DecFixed(2, 0));
}

// @harness props=C02,C01 tier=thorough timeout=900
// @bound every value of u8 presented through serialize_u8 against node decf2_0 (IntKind::DecFixed(2, 0)); output <= 40 bytes; unwind 18 >= 16 decimal bytes + 2
#[kani::proof]
#[kani::unwind(18)]
#[kani::stub(alloc::fmt::format, crate::verif::stub_format)]
fn c02_int_u8_decf2_0() {
	crate::verif::stack_node!(d = nodes::dec_fixed(2, 0));
	cell_int::<u8>(kani::any(), d, IntKind::DecFixed(2, 0));
}

// @harness props=C02,C01 tier=thorough timeout=900
// @bound every value of u16 presented through serialize_u16 against node decf2_0 (IntKind::DecFixed(2, 0)); output <= 40 bytes; unwind 18 >= 16 decimal bytes + 2
#[kani::proof]
#[kani::unwind(18)]
#[kani::stub(alloc::fmt::format, crate::verif::stub_format)]
fn c02_int_u16_decf2_0() {
	crate::verif::stack_node!(d = nodes::dec_fixed(2, 0));
	cell_int::<u16>(kani::any(), d, IntKind::DecFixed(2, 0));
}

// @harness props=C02,C01 tier=thorough timeout=900
// @bound every value of u32 presented through serialize_u32 against node decf2_0 (IntKind::DecFixed(2, 0)); output <= 40 bytes; unwind 18 >= 16 decimal bytes + 2
#[kani::proof]
#[kani::unwind(18)]
#[kani::stub(alloc::fmt::format, crate::verif::stub_format)]
fn c02_int_u32_decf2_0() {
	crate::verif::stack_node!(d = nodes::dec_fixed(2, 0));
	cell_int::<u32>(kani::any(), d, IntKind::DecFixed(2, 0));
}

// @harness props=C02,C01 tier=thorough timeout=900
// @bound every value of u64 presented through serialize_u64 against node decf2_0 (IntKind::DecFixed(2, 0)); output <= 40 bytes; unwind 18 >= 16 decimal bytes + 2
#[kani::proof]
#[kani::unwind(18)]
#[kani::stub(alloc::fmt::format, crate::verif::stub_format)]
fn c02_int_u64_decf2_0() {
	crate::verif::stack_node!(d = nodes::dec_fixed(2, 0));
	cell_int::<u64>(kani::any(), d, IntKind::DecFixed(2, 0));
}

// @harness props=C02,C01 tier=thorough timeout=900
// @bound every value of u128 presented through serialize_u128 against node decf2_0 (IntKind::DecFixed(2, 0)); output <= 40 bytes; unwind 18 >= 16 decimal bytes + 2
#[kani::proof]
#[kani::unwind(18)]
#[kani::stub(alloc::fmt::format, crate::verif::stub_format)]
fn c02_int_u128_decf2_0() {
	crate::verif::stack_node!(d = nodes::dec_fixed(2, 0));
	cell_int::<u128>(kani::any(), d, IntKind::DecFixed(2, 0));
}

// @harness props=C02,C01 tier=thorough timeout=900
// @bound every value of i8 presented through serialize_i8 against node decf8_0 (IntKind::DecFixed(8, 0)); output <= 40 bytes; unwind 18 >= 16 decimal bytes + 2
#[kani::proof]
#[kani::unwind(18)]
#[kani::stub(alloc::fmt::format, crate::verif::stub_format)]
fn c02_int_i8_decf8_0() {
	crate::verif::stack_node!(d = nodes::dec_fixed(8, 0));
	cell_int::<i8>(kani::any(), d, IntKind::DecFixed(8, 0));
}

// @harness props=C02,C01 tier=thorough timeout=900
// @bound every value of i16 presented through serialize_i16 against node decf8_0 (IntKind::DecFixed(8, 0)); output <= 40 bytes; unwind 18 >= 16 decimal bytes + 2
#[kani::proof]
#[kani::unwind(18)]
#[kani::stub(alloc::fmt::format, crate::verif::stub_format)]
fn c02_int_i16_decf8_0() {
	crate::verif::stack_node!(d = nodes::dec_fixed(8, 0));
	cell_int::<i16>(kani::any(), d, IntKind::DecFixed(8, 0));
}

// @harness props=C02,C01 tier=thorough timeout=900
// @bound every value of i32 presented through serialize_i32 against node decf8_0 (IntKind::DecFixed(8, 0)); output <= 40 bytes; unwind 18 >= 16 decimal bytes + 2
#[kani::proof]
#[kani::unwind(18)]
#[kani::stub(alloc::fmt::format, crate::verif::stub_format)]
fn c02_int_i32_decf8_0() {
	crate::verif::stack_node!(d = nodes::dec_fixed(8, 0));
	cell_int::<i32>(kani::any(), d, IntKind::DecFixed(8, 0));
}

// @harness props=C02,C01 tier=thorough timeout=900
// @bound every value of i64 presented through serialize_i64 against node decf8_0 (IntKind::DecFixed(8, 0)); output <= 40 bytes; unwind 18 >= 16 decimal bytes + 2
#[kani::proof]
#[kani::unwind(18)]
#[kani::stub(alloc::fmt::format, crate::verif::stub_format)]
fn c02_int_i64_decf8_0() {
	crate::verif::stack_node!(d = nodes::dec_fixed(8, 0));
	cell_int::<i64>(kani::any(), d, IntKind::DecFixed(8, 0));
}

// @harness props=C02,C01 tier=thorough timeout=900
// @bound every value of i128 presented through serialize_i128 against node decf8_0 (IntKind::DecFixed(8, 0)); output <= 40 bytes; unwind 18 >= 16 decimal bytes + 2
#[kani::proof]
#[kani::unwind(18)]
#[kani::stub(alloc::fmt::format, crate::verif::stub_format)]
fn c02_int_i128_decf8_0() {
	crate::verif::stack_node!(d = nodes::dec_fixed(8, 0));
	cell_int::<i128>(kani::any(), d, IntKind::DecFixed(8, 0));
}

// @harness props=C02,C01 tier=thorough timeout=900
// @bound every value of u8 presented through serialize_u8 against node decf8_0 (IntKind::DecFixed(8, 0)); output <= 40 bytes; unwind 18 >= 16 decimal bytes + 2
#[kani::proof]
#[kani::unwind(18)]
#[kani::stub(alloc::fmt::format, crate::verif::stub_format)]
fn c02_int_u8_decf8_0() {
	crate::verif::stack_node!(d = nodes::dec_fixed(8, 0));
	cell_int::<u8>(kani::any(), d, IntKind::DecFixed(8, 0));
}

// @harness props=C02,C01 tier=thorough timeout=900
// @bound every value of u16 presented through serialize_u16 against node decf8_0 (IntKind::DecFixed(8, 0)); output <= 40 bytes; unwind 18 >= 16 decimal bytes + 2
#[kani::proof]
#[kani::unwind(18)]
#[kani::stub(alloc::fmt::format, crate::verif::stub_format)]
fn c02_int_u16_decf8_0() {
	crate::verif::stack_node!(d = nodes::dec_fixed(8, 0));
	cell_int::<u16>(kani::any(), d, IntKind::DecFixed(8, 0));
}

// @harness props=C02,C01 tier=thorough timeout=900
// @bound every value of u32 presented through serialize_u32 against node decf8_0 (IntKind::DecFixed(8, 0)); output <= 40 bytes; unwind 18 >= 16 decimal bytes + 2
#[kani::proof]
#[kani::unwind(18)]
#[kani::stub(alloc::fmt::format, crate::verif::stub_format)]
fn c02_int_u32_decf8_0() {
	crate::verif::stack_node!(d = nodes::dec_fixed(8, 0));
	cell_int::<u32>(kani::any(), d, IntKind::DecFixed(8, 0));
}

// @harness props=C02,C01 tier=thorough timeout=900
// @bound every value of u64 presented through serialize_u64 against node decf8_0 (IntKind::DecFixed(8, 0)); output <= 40 bytes; unwind 18 >= 16 decimal bytes + 2
#[kani::proof]
#[kani::unwind(18)]
#[kani::stub(alloc::fmt::format, crate::verif::stub_format)]
fn c02_int_u64_decf8_0() {
	crate::verif::stack_node!(d = nodes::dec_fixed(8, 0));
	cell_int::<u64>(kani::any(), d, IntKind::DecFixed(8, 0));
}

// @harness props=C02,C01 tier=thorough timeout=900
// @bound every value of u128 presented through serialize_u128 against node decf8_0 (IntKind::DecFixed(8, 0)); output <= 40 bytes; unwind 18 >= 16 decimal bytes + 2
#[kani::proof]
#[kani::unwind(18)]
#[kani::stub(alloc::fmt::format, crate::verif::stub_format)]
fn c02_int_u128_decf8_0() {
	crate::verif::stack_node!(d = nodes::dec_fixed(8, 0));
	cell_int::<u128>(kani::any(), d, IntKind::DecFixed(8, 0));
}

// @harness props=C02,C01 tier=thorough timeout=900
// @bound every value of i8 presented through serialize_i8 against node decf16_0 (IntKind::DecFixed(16, 0)); output <= 40 bytes; unwind 18 >= 16 decimal bytes + 2
#[kani::proof]
#[kani::unwind(18)]
#[kani::stub(alloc::fmt::format, crate::verif::stub_format)]
fn c02_int_i8_decf16_0() {
	crate::verif::stack_node!(d = nodes::dec_fixed(16, 0));
	cell_int::<i8>(kani::any(), d, IntKind::DecFixed(16, 0));
}

// @harness props=C02,C01 tier=thorough timeout=900
// @bound every value of i16 presented through serialize_i16 against node decf16_0 (IntKind::DecFixed(16, 0)); output <= 40 bytes; unwind 18 >= 16 decimal bytes + 2
#[kani::proof]
#[kani::unwind(18)]
#[kani::stub(alloc::fmt::format, crate::verif::stub_format)]
fn c02_int_i16_decf16_0() {
	crate::verif::stack_node!(d = nodes::dec_fixed(16, 0));
	cell_int::<i16>(kani::any(), d, IntKind::DecFixed(16, 0));
}

// @harness props=C02,C01 tier=thorough timeout=900
// @bound every value of i32 presented through serialize_i32 against node decf16_0 (IntKind::DecFixed(16, 0)); output <= 40 bytes; unwind 18 >= 16 decimal bytes + 2
#[kani::proof]
#[kani::unwind(18)]
#[kani::stub(alloc::fmt::format, crate::verif::stub_format)]
fn c02_int_i32_decf16_0() {
	crate::verif::stack_node!(d = nodes::dec_fixed(16, 0));
	cell_int::<i32>(kani::any(), d, IntKind::DecFixed(16, 0));
}

// @harness props=C02,C01 tier=thorough timeout=900
// @bound every value of i64 presented through serialize_i64 against node decf16_0 (IntKind::DecFixed(16, 0)); output <= 40 bytes; unwind 18 >= 16 decimal bytes + 2
#[kani::proof]
#[kani::unwind(18)]
#[kani::stub(alloc::fmt::format, crate::verif::stub_format)]
fn c02_int_i64_decf16_0() {
	crate::verif::stack_node!(d = nodes::dec_fixed(16, 0));
	cell_int::<i64>(kani::any(), d, IntKind::DecFixed(16, 0));
}

// @harness props=C02,C01 tier=thorough timeout=900
// @bound every value of i128 presented through serialize_i128 against node decf16_0 (IntKind::DecFixed(16, 0)); output <= 40 bytes; unwind 18 >= 16 decimal bytes + 2
#[kani::proof]
#[kani::unwind(18)]
#[kani::stub(alloc::fmt::format, crate::verif::stub_format)]
fn c02_int_i128_decf16_0() {
	crate::verif::stack_node!(d = nodes::dec_fixed(16, 0));
	cell_int::<i128>(kani::any(), d, IntKind::DecFixed(16, 0));
}

// @harness props=C02,C01 tier=thorough timeout=900
// @bound every value of u8 presented through serialize_u8 against node decf16_0 (IntKind::DecFixed(16, 0)); output <= 40 bytes; unwind 18 >= 16 decimal bytes + 2
#[kani::proof]
#[kani::unwind(18)]
#[kani::stub(alloc::fmt::format, crate::verif::stub_format)]
fn c02_int_u8_decf16_0() {
	crate::verif::stack_node!(d = nodes::dec_fixed(16, 0));
	cell_int::<u8>(kani::any(), d, IntKind::DecFixed(16, 0));
}

// @harness props=C02,C01 tier=thorough timeout=900
// @bound every value of u16 presented through serialize_u16 against node decf16_0 (IntKind::DecFixed(16, 0)); output <= 40 bytes; unwind 18 >= 16 decimal bytes + 2
#[kani::proof]
#[kani::unwind(18)]
#[kani::stub(alloc::fmt::format, crate::verif::stub_format)]
fn c02_int_u16_decf16_0() {
	crate::verif::stack_node!(d = nodes::dec_fixed(16, 0));
	cell_int::<u16>(kani::any(), d, IntKind::DecFixed(16, 0));
}

// @harness props=C02,C01 tier=thorough timeout=900
// @bound every value of u32 presented through serialize_u32 against node decf16_0 (IntKind::DecFixed(16, 0)); output <= 40 bytes; unwind 18 >= 16 decimal bytes + 2
#[kani::proof]
#[kani::unwind(18)]
#[kani::stub(alloc::fmt::format, crate::verif::stub_format)]
fn c02_int_u32_decf16_0() {
	crate::verif::stack_node!(d = nodes::dec_fixed(16, 0));
	cell_int::<u32>(kani::any(), d, IntKind::DecFixed(16, 0));
}

// @harness props=C02,C01 tier=thorough timeout=900
// @bound every value of u64 presented through serialize_u64 against node decf16_0 (IntKind::DecFixed(16, 0)); output <= 40 bytes; unwind 18 >= 16 decimal bytes + 2
#[kani::proof]
#[kani::unwind(18)]
#[kani::stub(alloc::fmt::format, crate::verif::stub_format)]
fn c02_int_u64_decf16_0() {
	crate::verif::stack_node!(d = nodes::dec_fixed(16, 0));
	cell_int::<u64>(kani::any(), d, IntKind::DecFixed(16, 0));
}

// @harness props=C02,C01 tier=thorough timeout=900
// @bound every value of u128 presented through serialize_u128 against node decf16_0 (IntKind::DecFixed(16, 0)); output <= 40 bytes; unwind 18 >= 16 decimal bytes + 2
#[kani::proof]
#[kani::unwind(18)]
#[kani::stub(alloc::fmt::format, crate::verif::stub_format)]
fn c02_int_u128_decf16_0() {
	crate::verif::stack_node!(d = nodes::dec_fixed(16, 0));
	cell_int::<u128>(kani::any(), d, IntKind::DecFixed(16, 0));
}

// @harness props=C02,C01 tier=thorough timeout=900
// @bound every value of i8 presented through serialize_i8 against node decf17_0 (IntKind::DecFixed(17, 0)); output <= 40 bytes; unwind 18 >= 16 decimal bytes + 2
#[kani::proof]
#[kani::unwind(18)]
#[kani::stub(alloc::fmt::format, crate::verif::stub_format)]
fn c02_int_i8_decf17_0() {
	crate::verif::stack_node!(d = nodes::dec_fixed(17, 0));
	cell_int::<i8>(kani::any(), d, IntKind::DecFixed(17, 0));
}

// @harness props=C02,C01 tier=thorough timeout=900
// @bound every value of i16 presented through serialize_i16 against node decf17_0 (IntKind::DecFixed(17, 0)); output <= 40 bytes; unwind 18 >= 16 decimal bytes + 2
#[kani::proof]
#[kani::unwind(18)]
#[kani::stub(alloc::fmt::format, crate::verif::stub_format)]
fn c02_int_i16_decf17_0() {
	crate::verif::stack_node!(d = nodes::dec_fixed(17, 0));
	cell_int::<i16>(kani::any(), d, IntKind::DecFixed(17, 0));
}

// @harness props=C02,C01 tier=thorough timeout=900
// @bound every value of i32 presented through serialize_i32 against node decf17_0 (IntKind::DecFixed(17, 0)); output <= 40 bytes; unwind 18 >= 16 decimal bytes + 2
#[kani::proof]
#[kani::unwind(18)]
#[kani::stub(alloc::fmt::format, crate::verif::stub_format)]
fn c02_int_i32_decf17_0() {
	crate::verif::stack_node!(d = nodes::dec_fixed(17, 0));
	cell_int::<i32>(kani::any(), d, IntKind::DecFixed(17, 0));
}

// @harness props=C02,C01 tier=thorough timeout=900
// @bound every value of i64 presented through serialize_i64 against node decf17_0 (IntKind::DecFixed(17, 0)); output <= 40 bytes; unwind 18 >= 16 decimal bytes + 2
#[kani::proof]
#[kani::unwind(18)]
#[kani::stub(alloc::fmt::format, crate::verif::stub_format)]
fn c02_int_i64_decf17_0() {
	crate::verif::stack_node!(d = nodes::dec_fixed(17, 0));
	cell_int::<i64>(kani::any(), d, IntKind::DecFixed(17, 0));
}

// @harness props=C02,C01 tier=thorough timeout=900
// @bound every value of i128 presented through serialize_i128 against node decf17_0 (IntKind::DecFixed(17, 0)); output <= 40 bytes; unwind 18 >= 16 decimal bytes + 2
#[kani::proof]
#[kani::unwind(18)]
#[kani::stub(alloc::fmt::format, crate::verif::stub_format)]
fn c02_int_i128_decf17_0() {
	crate::verif::stack_node!(d = nodes::dec_fixed(17, 0));
	cell_int::<i128>(kani::any(), d, IntKind::DecFixed(17, 0));
}

// @harness props=C02,C01 tier=thorough timeout=900
// @bound every value of u8 presented through serialize_u8 against node decf17_0 (IntKind::DecFixed(17, 0)); output <= 40 bytes; unwind 18 >= 16 decimal bytes + 2
#[kani::proof]
#[kani::unwind(18)]
#[kani::stub(alloc::fmt::format, crate::verif::stub_format)]
fn c02_int_u8_decf17_0() {
	crate::verif::stack_node!(d = nodes::dec_fixed(17, 0));
	cell_int::<u8>(kani::any(), d, IntKind::DecFixed(17, 0));
}

// @harness props=C02,C01 tier=thorough timeout=900
// @bound every value of u16 presented through serialize_u16 against node decf17_0 (IntKind::DecFixed(17, 0)); output <= 40 bytes; unwind 18 >= 16 decimal bytes + 2
#[kani::proof]
#[kani::unwind(18)]
#[kani::stub(alloc::fmt::format, crate::verif::stub_format)]
fn c02_int_u16_decf17_0() {
	crate::verif::stack_node!(d = nodes::dec_fixed(17, 0));
	cell_int::<u16>(kani::any(), d, IntKind::DecFixed(17, 0));
}

// @harness props=C02,C01 tier=thorough timeout=900
// @bound every value of u32 presented through serialize_u32 against node decf17_0 (IntKind::DecFixed(17, 0)); output <= 40 bytes; unwind 18 >= 16 decimal bytes + 2
#[kani::proof]
#[kani::unwind(18)]
#[kani::stub(alloc::fmt::format, crate::verif::stub_format)]
fn c02_int_u32_decf17_0() {
	crate::verif::stack_node!(d = nodes::dec_fixed(17, 0));
	cell_int::<u32>(kani::any(), d, IntKind::DecFixed(17, 0));
}

// @harness props=C02,C01 tier=thorough timeout=900
// @bound every value of u64 presented through serialize_u64 against node decf17_0 (IntKind::DecFixed(17, 0)); output <= 40 bytes; unwind 18 >= 16 decimal bytes + 2
#[kani::proof]
#[kani::unwind(18)]
#[kani::stub(alloc::fmt::format, crate::verif::stub_format)]
fn c02_int_u64_decf17_0() {
	crate::verif::stack_node!(d = nodes::dec_fixed(17, 0));
	cell_int::<u64>(kani::any(), d, IntKind::DecFixed(17, 0));
}

// @harness props=C02,C01 tier=thorough timeout=900
// @bound every value of u128 presented through serialize_u128 against node decf17_0 (IntKind::DecFixed(17, 0)); output <= 40 bytes; unwind 18 >= 16 decimal bytes + 2
#[kani::proof]
#[kani::unwind(18)]
#[kani::stub(alloc::fmt::format, crate::verif::stub_format)]
fn c02_int_u128_decf17_0() {
	crate::verif::stack_node!(d = nodes::dec_fixed(17, 0));
	cell_int::<u128>(kani::any(), d, IntKind::DecFixed(17, 0));
}

// @harness props=C02,C01 tier=thorough timeout=900
// @bound every value of i8 presented through serialize_i8 against node decf2_1 (IntKind::DecFixed(2, 1)); output <= 40 bytes; unwind 18 >= 16 decimal bytes + 2
#[kani::proof]
#[kani::unwind(18)]
#[kani::stub(alloc::fmt::format, crate::verif::stub_format)]
fn c02_int_i8_decf2_1() {
	crate::verif::stack_node!(d = nodes::dec_fixed(2, 1));
	cell_int::<i8>(kani::any(), d, IntKind::DecFixed(2, 1));
}

// @harness props=C02,C01 tier=thorough timeout=900
// @bound every value of i16 presented through serialize_i16 against node decf2_1 (IntKind::DecFixed(2, 1)); output <= 40 bytes; unwind 18 >= 16 decimal bytes + 2
#[kani::proof]
#[kani::unwind(18)]
#[kani::stub(alloc::fmt::format, crate::verif::stub_format)]
fn c02_int_i16_decf2_1() {
	crate::verif::stack_node!(d = nodes::dec_fixed(2, 1));
	cell_int::<i16>(kani::any(), d, IntKind::DecFixed(2, 1));
}

// @harness props=C02,C01 tier=quick timeout=900
// @bound every value of i32 presented through serialize_i32 against node decf2_1 (IntKind::DecFixed(2, 1)); output <= 40 bytes; unwind 18 >= 16 decimal bytes + 2
#[kani::proof]
#[kani::unwind(18)]
#[kani::stub(alloc::fmt::format, crate::verif::stub_format)]
fn c02_int_i32_decf2_1() {
	crate::verif::stack_node!(d = nodes::dec_fixed(2, 1));
	cell_int::<i32>(kani::any(), d, IntKind::DecFixed(2, 1));
}

// @harness props=C02,C01 tier=quick timeout=900
// @bound every value of i64 presented through serialize_i64 against node decf2_1 (IntKind::DecFixed(2, 1)); output <= 40 bytes; unwind 18 >= 16 decimal bytes + 2
#[kani::proof]
#[kani::unwind(18)]
#[kani::stub(alloc::fmt::format, crate::verif::stub_format)]
fn c02_int_i64_decf2_1() {
	crate::verif::stack_node!(d = nodes::dec_fixed(2, 1));
	cell_int::<i64>(kani::any(), d, IntKind::DecFixed(2, 1));
}

// @harness props=C02,C01 tier=quick timeout=900
// @bound every value of i128 presented through serialize_i128 against node decf2_1 (IntKind::DecFixed(2, 1)); output <= 40 bytes; unwind 18 >= 16 decimal bytes + 2
#[kani::proof]
#[kani::unwind(18)]
#[kani::stub(alloc::fmt::format, crate::verif::stub_format)]
fn c02_int_i128_decf2_1() {
	crate::verif::stack_node!(d = nodes::dec_fixed(2, 1));
	cell_int::<i128>(kani::any(), d, IntKind::DecFixed(2, 1));
}

// @harness props=C02,C01 tier=quick timeout=900
// @bound every value of u8 presented through serialize_u8 against node decf2_1 (IntKind::DecFixed(2, 1)); output <= 40 bytes; unwind 18 >= 16 decimal bytes + 2
#[kani::proof]
#[kani::unwind(18)]
#[kani::stub(alloc::fmt::format, crate::verif::stub_format)]
fn c02_int_u8_decf2_1() {
	crate::verif::stack_node!(d = nodes::dec_fixed(2, 1));
	cell_int::<u8>(kani::any(), d, IntKind::DecFixed(2, 1));
}

// @harness props=C02,C01 tier=thorough timeout=900
// @bound every value of u16 presented through serialize_u16 against node decf2_1 (IntKind::DecFixed(2, 1)); output <= 40 bytes; unwind 18 >= 16 decimal bytes + 2
#[kani::proof]
#[kani::unwind(18)]
#[kani::stub(alloc::fmt::format, crate::verif::stub_format)]
fn c02_int_u16_decf2_1() {
	crate::verif::stack_node!(d = nodes::dec_fixed(2, 1));
	cell_int::<u16>(kani::any(), d, IntKind::DecFixed(2, 1));
}

// @harness props=C02,C01 tier=thorough timeout=900
// @bound every value of u32 presented through serialize_u32 against node decf2_1 (IntKind::DecFixed(2, 1)); output <= 40 bytes; unwind 18 >= 16 decimal bytes + 2
#[kani::proof]
#[kani::unwind(18)]
#[kani::stub(alloc::fmt::format, crate::verif::stub_format)]
fn c02_int_u32_decf2_1() {
	crate::verif::stack_node!(d = nodes::dec_fixed(2, 1));
	cell_int::<u32>(kani::any(), d, IntKind::DecFixed(2, 1));
}

// @harness props=C02,C01 tier=quick timeout=900
// @bound every value of u64 presented through serialize_u64 against node decf2_1 (IntKind::DecFixed(2, 1)); output <= 40 bytes; unwind 18 >= 16 decimal bytes + 2
#[kani::proof]
#[kani::unwind(18)]
#[kani::stub(alloc::fmt::format, crate::verif::stub_format)]
fn c02_int_u64_decf2_1() {
	crate::verif::stack_node!(d = nodes::dec_fixed(2, 1));
	cell_int::<u64>(kani::any(), d, IntKind::DecFixed(2, 1));
}

// @harness props=C02,C01 tier=thorough timeout=900
// @bound every value of u128 presented through serialize_u128 against node decf2_1 (IntKind::DecFixed(2, 1)); output <= 40 bytes; unwind 18 >= 16 decimal bytes + 2
#[kani::proof]
#[kani::unwind(18)]
#[kani::stub(alloc::fmt::format, crate::verif::stub_format)]
fn c02_int_u128_decf2_1() {
	crate::verif::stack_node!(d = nodes::dec_fixed(2, 1));
	cell_int::<u128>(kani::any(), d, IntKind::DecFixed(2, 1));
}
