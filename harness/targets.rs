// Target / source Rust types for the datum harnesses: hand-written Deserialize / Serialize impls
// over fixed-size arrays (no Vec / String on the symbolic path).
use serde::de::{self, Deserialize, Deserializer, MapAccess, SeqAccess, Visitor};
use serde::ser::{Serialize, SerializeMap, SerializeSeq, SerializeStruct, SerializeTuple, Serializer};

// ---------------------------------------------------------------------------------------------
/// bytes borrowed from the input (slice path only: `visit_bytes` = not borrowed = error)
pub(crate) struct BBytes<'a>(pub(crate) &'a [u8]);
impl<'de> Deserialize<'de> for BBytes<'de> {
	fn deserialize<D: Deserializer<'de>>(d: D) -> Result<Self, D::Error> {
		struct V;
		impl<'de> Visitor<'de> for V {
			type Value = BBytes<'de>;
			fn expecting(&self, f: &mut std::fmt::Formatter) -> std::fmt::Result {
				f.write_str("borrowed bytes")
			}
			fn visit_borrowed_bytes<E: de::Error>(self, v: &'de [u8]) -> Result<Self::Value, E> {
				Ok(BBytes(v))
			}
		}
		d.deserialize_bytes(V)
	}
}
/// str borrowed from the input
pub(crate) struct BStr<'a>(pub(crate) &'a str);
impl<'de> Deserialize<'de> for BStr<'de> {
	fn deserialize<D: Deserializer<'de>>(d: D) -> Result<Self, D::Error> {
		struct V;
		impl<'de> Visitor<'de> for V {
			type Value = BStr<'de>;
			fn expecting(&self, f: &mut std::fmt::Formatter) -> std::fmt::Result {
				f.write_str("borrowed str")
			}
			fn visit_borrowed_str<E: de::Error>(self, v: &'de str) -> Result<Self::Value, E> {
				Ok(BStr(v))
			}
		}
		d.deserialize_str(V)
	}
}
/// owned copy of bytes / str bytes, at most N (more = error)
#[derive(Clone, Copy)]
pub(crate) struct OBytes<const N: usize> {
	pub(crate) buf: [u8; N],
	pub(crate) len: usize,
}
impl<const N: usize> Default for OBytes<N> {
	fn default() -> Self {
		Self { buf: [0; N], len: 0 }
	}
}
impl<const N: usize> OBytes<N> {
	pub(crate) fn bytes(&self) -> &[u8] {
		&self.buf[..self.len]
	}
	fn from(v: &[u8]) -> Option<Self> {
		if v.len() > N {
			return None;
		}
		let mut r = Self::default();
		r.buf[..v.len()].copy_from_slice(v);
		r.len = v.len();
		Some(r)
	}
}
struct OBytesVisitor<const N: usize>;
impl<'de, const N: usize> Visitor<'de> for OBytesVisitor<N> {
	type Value = OBytes<N>;
	fn expecting(&self, f: &mut std::fmt::Formatter) -> std::fmt::Result {
		f.write_str("bytes")
	}
	fn visit_bytes<E: de::Error>(self, v: &[u8]) -> Result<Self::Value, E> {
		OBytes::from(v).ok_or_else(|| E::custom("too long for harness target"))
	}
	fn visit_str<E: de::Error>(self, v: &str) -> Result<Self::Value, E> {
		OBytes::from(v.as_bytes()).ok_or_else(|| E::custom("too long for harness target"))
	}
}
impl<'de, const N: usize> Deserialize<'de> for OBytes<N> {
	fn deserialize<D: Deserializer<'de>>(d: D) -> Result<Self, D::Error> {
		d.deserialize_bytes(OBytesVisitor::<N>)
	}
}
/// same, but asks for a string (deserialize_str)
#[derive(Clone, Copy, Default)]
pub(crate) struct OStr<const N: usize>(pub(crate) OBytes<N>);
impl<'de, const N: usize> Deserialize<'de> for OStr<N> {
	fn deserialize<D: Deserializer<'de>>(d: D) -> Result<Self, D::Error> {
		d.deserialize_str(OBytesVisitor::<N>).map(OStr)
	}
}
/// same, via deserialize_any (what a dynamically typed target would do)
#[derive(Clone, Copy, Default)]
pub(crate) struct AnyBytes<const N: usize>(pub(crate) OBytes<N>);
impl<'de, const N: usize> Deserialize<'de> for AnyBytes<N> {
	fn deserialize<D: Deserializer<'de>>(d: D) -> Result<Self, D::Error> {
		d.deserialize_any(OBytesVisitor::<N>).map(AnyBytes)
	}
}

// ---------------------------------------------------------------------------------------------
/// sequence of at most N elements (more = error)
#[derive(Clone, Copy)]
pub(crate) struct Seq<T, const N: usize> {
	pub(crate) items: [T; N],
	pub(crate) len: usize,
}
impl<T: Default + Copy, const N: usize> Default for Seq<T, N> {
	fn default() -> Self {
		Self { items: [T::default(); N], len: 0 }
	}
}
impl<'de, T: Deserialize<'de> + Default + Copy, const N: usize> Deserialize<'de> for Seq<T, N> {
	fn deserialize<D: Deserializer<'de>>(d: D) -> Result<Self, D::Error> {
		struct V<T, const N: usize>(std::marker::PhantomData<T>);
		impl<'de, T: Deserialize<'de> + Default + Copy, const N: usize> Visitor<'de> for V<T, N> {
			type Value = Seq<T, N>;
			fn expecting(&self, f: &mut std::fmt::Formatter) -> std::fmt::Result {
				f.write_str("seq")
			}
			fn visit_seq<A: SeqAccess<'de>>(self, mut a: A) -> Result<Self::Value, A::Error> {
				let mut r = Seq::<T, N>::default();
				loop {
					match a.next_element::<T>()? {
						None => return Ok(r),
						Some(x) => {
							if r.len >= N {
								return Err(de::Error::custom("too many elements for harness target"));
							}
							r.items[r.len] = x;
							r.len += 1;
						}
					}
				}
			}
		}
		d.deserialize_seq(V::<T, N>(std::marker::PhantomData))
	}
}
impl<T: Serialize, const N: usize> Serialize for Seq<T, N> {
	fn serialize<S: Serializer>(&self, s: S) -> Result<S::Ok, S::Error> {
		let mut q = s.serialize_seq(Some(self.len))?;
		let mut i = 0;
		while i < self.len {
			q.serialize_element(&self.items[i])?;
			i += 1;
		}
		q.end()
	}
}
/// sequence presented without a length hint (serialize_seq(None))
pub(crate) struct SeqNoHint<'a, T, const N: usize>(pub(crate) &'a Seq<T, N>);
impl<T: Serialize, const N: usize> Serialize for SeqNoHint<'_, T, N> {
	fn serialize<S: Serializer>(&self, s: S) -> Result<S::Ok, S::Error> {
		let mut q = s.serialize_seq(None)?;
		let mut i = 0;
		while i < self.0.len {
			q.serialize_element(&self.0.items[i])?;
			i += 1;
		}
		q.end()
	}
}

/// map with keys of 0 or 1 byte (ASCII), at most N entries
#[derive(Clone, Copy)]
pub(crate) struct Map1<T, const N: usize> {
	pub(crate) keys: [OBytes<1>; N],
	pub(crate) vals: [T; N],
	pub(crate) len: usize,
}
impl<T: Default + Copy, const N: usize> Default for Map1<T, N> {
	fn default() -> Self {
		Self { keys: [OBytes::default(); N], vals: [T::default(); N], len: 0 }
	}
}
impl<'de, T: Deserialize<'de> + Default + Copy, const N: usize> Deserialize<'de> for Map1<T, N> {
	fn deserialize<D: Deserializer<'de>>(d: D) -> Result<Self, D::Error> {
		struct V<T, const N: usize>(std::marker::PhantomData<T>);
		impl<'de, T: Deserialize<'de> + Default + Copy, const N: usize> Visitor<'de> for V<T, N> {
			type Value = Map1<T, N>;
			fn expecting(&self, f: &mut std::fmt::Formatter) -> std::fmt::Result {
				f.write_str("map")
			}
			fn visit_map<A: MapAccess<'de>>(self, mut a: A) -> Result<Self::Value, A::Error> {
				let mut r = Map1::<T, N>::default();
				loop {
					match a.next_key::<OStr<1>>()? {
						None => return Ok(r),
						Some(k) => {
							let v = a.next_value::<T>()?;
							if r.len >= N {
								return Err(de::Error::custom("too many entries for harness target"));
							}
							r.keys[r.len] = k.0;
							r.vals[r.len] = v;
							r.len += 1;
						}
					}
				}
			}
		}
		d.deserialize_map(V::<T, N>(std::marker::PhantomData))
	}
}
pub(crate) struct AsciiKey<'a>(pub(crate) &'a OBytes<1>);
impl Serialize for AsciiKey<'_> {
	fn serialize<S: Serializer>(&self, s: S) -> Result<S::Ok, S::Error> {
		// keys are assumed ASCII by the harness (so this is valid UTF-8)
		s.serialize_str(unsafe { std::str::from_utf8_unchecked(self.0.bytes()) })
	}
}
impl<T: Serialize, const N: usize> Serialize for Map1<T, N> {
	fn serialize<S: Serializer>(&self, s: S) -> Result<S::Ok, S::Error> {
		let mut q = s.serialize_map(Some(self.len))?;
		let mut i = 0;
		while i < self.len {
			q.serialize_entry(&AsciiKey(&self.keys[i]), &self.vals[i])?;
			i += 1;
		}
		q.end()
	}
}

// ---------------------------------------------------------------------------------------------
/// bytes presented through serialize_bytes (what serde_bytes does)
pub(crate) struct SBytes<'a>(pub(crate) &'a [u8]);
impl Serialize for SBytes<'_> {
	fn serialize<S: Serializer>(&self, s: S) -> Result<S::Ok, S::Error> {
		s.serialize_bytes(self.0)
	}
}

/// duration as a struct {months, days, milliseconds} with fields presented in a chosen order
#[derive(Clone, Copy, PartialEq, Eq, Default)]
pub(crate) struct Dur {
	pub(crate) months: u32,
	pub(crate) days: u32,
	pub(crate) milliseconds: u32,
}
impl Serialize for Dur {
	fn serialize<S: Serializer>(&self, s: S) -> Result<S::Ok, S::Error> {
		let mut q = s.serialize_struct("Duration", 3)?;
		q.serialize_field("months", &self.months)?;
		q.serialize_field("days", &self.days)?;
		q.serialize_field("milliseconds", &self.milliseconds)?;
		q.end()
	}
}
impl<'de> Deserialize<'de> for Dur {
	fn deserialize<D: Deserializer<'de>>(d: D) -> Result<Self, D::Error> {
		struct Field(u8);
		impl<'de> Deserialize<'de> for Field {
			fn deserialize<D: Deserializer<'de>>(d: D) -> Result<Self, D::Error> {
				struct FV;
				impl<'de> Visitor<'de> for FV {
					type Value = Field;
					fn expecting(&self, f: &mut std::fmt::Formatter) -> std::fmt::Result {
						f.write_str("field")
					}
					fn visit_u64<E: de::Error>(self, v: u64) -> Result<Field, E> {
						Ok(Field(v as u8))
					}
				}
				// avoid the string comparison: the duration key deserializer answers u64 hints
				d.deserialize_u64(FV)
			}
		}
		struct V;
		impl<'de> Visitor<'de> for V {
			type Value = Dur;
			fn expecting(&self, f: &mut std::fmt::Formatter) -> std::fmt::Result {
				f.write_str("duration")
			}
			fn visit_map<A: MapAccess<'de>>(self, mut a: A) -> Result<Dur, A::Error> {
				let mut r = Dur::default();
				let mut seen = 0u8;
				loop {
					match a.next_key::<Field>()? {
						None => break,
						Some(Field(i)) => {
							let v = a.next_value::<u32>()?;
							match i {
								0 => r.months = v,
								1 => r.days = v,
								_ => r.milliseconds = v,
							}
							seen |= 1 << i;
						}
					}
				}
				if seen != 7 {
					return Err(de::Error::custom("missing duration field"));
				}
				Ok(r)
			}
		}
		d.deserialize_struct("Duration", &["months", "days", "milliseconds"], V)
	}
}
/// duration as (u32,u32,u32)
#[derive(Clone, Copy, PartialEq, Eq, Default)]
pub(crate) struct DurTuple(pub(crate) u32, pub(crate) u32, pub(crate) u32);
impl Serialize for DurTuple {
	fn serialize<S: Serializer>(&self, s: S) -> Result<S::Ok, S::Error> {
		let mut q = s.serialize_tuple(3)?;
		q.serialize_element(&self.0)?;
		q.serialize_element(&self.1)?;
		q.serialize_element(&self.2)?;
		q.end()
	}
}
impl<'de> Deserialize<'de> for DurTuple {
	fn deserialize<D: Deserializer<'de>>(d: D) -> Result<Self, D::Error> {
		struct V;
		impl<'de> Visitor<'de> for V {
			type Value = DurTuple;
			fn expecting(&self, f: &mut std::fmt::Formatter) -> std::fmt::Result {
				f.write_str("duration tuple")
			}
			fn visit_seq<A: SeqAccess<'de>>(self, mut a: A) -> Result<DurTuple, A::Error> {
				let x = a.next_element::<u32>()?;
				let y = a.next_element::<u32>()?;
				let z = a.next_element::<u32>()?;
				match (x, y, z) {
					(Some(x), Some(y), Some(z)) => Ok(DurTuple(x, y, z)),
					_ => Err(de::Error::custom("short duration")),
				}
			}
		}
		d.deserialize_tuple(3, V)
	}
}

/// `serde::de::IgnoredAny`-like target that also counts nothing: we use the real IgnoredAny.
pub(crate) use serde::de::IgnoredAny;

/// i128 read through deserialize_i128 (decimals with the i128 hint)
#[derive(Clone, Copy, PartialEq, Eq, Default)]
pub(crate) struct I128Hint(pub(crate) i128);
impl<'de> Deserialize<'de> for I128Hint {
	fn deserialize<D: Deserializer<'de>>(d: D) -> Result<Self, D::Error> {
		struct V;
		impl<'de> Visitor<'de> for V {
			type Value = I128Hint;
			fn expecting(&self, f: &mut std::fmt::Formatter) -> std::fmt::Result {
				f.write_str("i128")
			}
			fn visit_i128<E: de::Error>(self, v: i128) -> Result<I128Hint, E> {
				Ok(I128Hint(v))
			}
			fn visit_i64<E: de::Error>(self, v: i64) -> Result<I128Hint, E> {
				Ok(I128Hint(v as i128))
			}
			fn visit_u64<E: de::Error>(self, v: u64) -> Result<I128Hint, E> {
				Ok(I128Hint(v as i128))
			}
		}
		d.deserialize_i128(V)
	}
}
