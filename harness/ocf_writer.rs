// Mounted in serde_avro_fast::object_container_file_encoding::writer — C15
use super::*;
use crate::schema::self_referential::SchemaNode;
use crate::verif::{io::*, spec};

const SYNC: [u8; 16] = [0xA5; 16];

/// A `Writer` in exactly the state `WriterBuilder::build` leaves it in after the header has been written
/// (Null codec; the header itself goes through serde flatten + Schema::json(): outside, see DESIGN C06).
fn writer_after_header<'c, 's>(
	config: &'c mut SerializerConfig<'s>,
	approx_block_size: u32,
) -> Writer<'c, 's, FixedBuf<96>> {
	Writer {
		inner: WriterInner {
			serializer_state: SerializerState::with_opt_owned_config(Vec::new(), SerializerConfigRef::Borrowed(config)),
			sync_marker: SYNC,
			compression_codec_state: CompressionCodecState::new(Compression::Null),
			n_elements_in_block: 0,
			approx_block_size,
			block_header_buffer: [0; 20],
			block_header_size: None,
		},
		writer: Some(FixedBuf::new()),
	}
}

/// Reference container-block parser (specification §"Object Container Files"): blocks of
/// count, byte size, that many bytes of `long` datums, 16-byte sync marker. Returns the values (<= 4).
/// None = the bytes are not a whole number of well-formed blocks.
fn parse_blocks(data: &[u8], out: &mut [i64; 4], n: &mut usize) -> Option<()> {
	let mut d = spec::Dec::new(data);
	let mut guard = 0;
	while d.pos < data.len() {
		if guard > 4 {
			return None;
		}
		guard += 1;
		let count = d.long()?;
		let size = d.long()?;
		if count <= 0 || size < 0 {
			return None;
		}
		let start = d.pos;
		let mut i = 0;
		while i < count {
			if *n >= 4 {
				return None;
			}
			out[*n] = d.long()?;
			*n += 1;
			i += 1;
		}
		if (d.pos - start) as i64 != size {
			return None;
		}
		let sync = d.take(16)?;
		let mut k = 0;
		while k < 16 {
			if sync[k] != SYNC[k] {
				return None;
			}
			k += 1;
		}
	}
	Some(())
}

/// after a call that returned Ok: the sink holds a valid sequence of blocks whose values are a prefix of
/// `accepted[..n_acc]`; returns how many values are in the sink
fn check_sink(w: &Writer<'_, '_, FixedBuf<96>>, accepted: &[i64; 4], n_acc: usize) -> usize {
	let sink = w.inner().bytes();
	let mut got = [0i64; 4];
	let mut n = 0;
	let ok = parse_blocks(sink, &mut got, &mut n);
	assert!(ok.is_some(), "c15: bytes delivered to the sink are not a whole number of valid blocks");
	assert!(n <= n_acc, "c15: the file contains more values than were accepted");
	let mut i = 0;
	while i < n {
		assert!(got[i] == accepted[i], "c15: the file's values are not a prefix of the accepted values");
		i += 1;
	}
	n
}

fn small() -> i64 {
	let v: i64 = kani::any();
	kani::assume(v >= -64 && v < 64);
	v
}

// @harness props=C15x tier=off timeout=1800
// @bound Null codec, schema long, approx_block_size symbolic 0..=3, history: serialize(v0), serialize(v1), serialize(true: does not match the schema -> Err), serialize(v2), finish_block; values one-byte varints (symbolic); after EVERY call the sink is a valid block sequence holding a prefix of the accepted values, at the end exactly all of them once; the failed value leaves no trace
#[kani::proof]
#[kani::unwind(18)]
#[kani::stub(alloc::fmt::format, crate::verif::stub_format)]
fn c15_writer_history() {
	let mut storage = [SchemaNode::Long];
	let st: &'static mut [SchemaNode<'static>] = unsafe { std::mem::transmute(&mut storage[..]) };
	let schema = crate::schema::self_referential::verif::schema_over(st, [0; 8]);
	let mut config = SerializerConfig::new(&schema);
	let approx: u32 = kani::any();
	kani::assume(approx <= 3);
	let mut w = writer_after_header(&mut config, approx);
	let mut accepted = [0i64; 4];
	let v0 = small();
	let v1 = small();
	let v2 = small();
	let r = w.serialize(v0);
	assert!(r.is_ok(), "c15: conforming value rejected");
	std::mem::forget(r);
	accepted[0] = v0;
	check_sink(&w, &accepted, 1);
	let r = w.serialize(v1);
	assert!(r.is_ok(), "c15: conforming value rejected");
	std::mem::forget(r);
	accepted[1] = v1;
	check_sink(&w, &accepted, 2);
	let r = w.serialize(true);
	assert!(r.is_err(), "c15: value that does not match the schema accepted");
	std::mem::forget(r);
	check_sink(&w, &accepted, 2);
	let r = w.serialize(v2);
	assert!(r.is_ok(), "c15: conforming value rejected after a failed one");
	std::mem::forget(r);
	accepted[2] = v2;
	let in_sink = check_sink(&w, &accepted, 3);
	kani::cover!(in_sink == 0);
	kani::cover!(in_sink == 3);
	let r = w.finish_block();
	assert!(r.is_ok(), "c15: finish_block failed on an infallible sink");
	std::mem::forget(r);
	let n = check_sink(&w, &accepted, 3);
	assert!(n == 3, "c15: after finish_block the file must contain every accepted value exactly once");
	std::mem::forget(w);
	std::mem::forget(config);
	std::mem::forget(schema);
}
