// Reference model written from the Avro specification text. Uses nothing from serde_avro_fast
// nor from integer-encoding.

/// CRC-64-AVRO, bit-serial definition from the specification ("fingerprint64"):
///   fp = EMPTY; for b in buf: fp = (fp >>> 8) ^ table[(fp ^ b) & 0xff]
///   table[i] = 8 rounds of: fp = (fp >>> 1) ^ (EMPTY & -(fp & 1))
pub(crate) const EMPTY64: u64 = 0xc15d213aa4d7a795;

pub(crate) fn rabin_table_entry(i: u64) -> u64 {
	let mut fp = i;
	let mut j = 0;
	while j < 8 {
		fp = (fp >> 1) ^ (EMPTY64 & (0u64.wrapping_sub(fp & 1)));
		j += 1;
	}
	fp
}

pub(crate) fn rabin_step(state: u64, b: u8) -> u64 {
	(state >> 8) ^ rabin_table_entry((state ^ b as u64) & 0xff)
}

// ---------------------------------------------------------------------------------------------
// Avro binary encoding (specification §"Binary Encoding"): zig-zag + base-128 little-endian varint

pub(crate) fn zigzag64(v: i64) -> u64 {
	((v << 1) ^ (v >> 63)) as u64
}
pub(crate) fn unzigzag64(u: u64) -> i64 {
	((u >> 1) as i64) ^ -((u & 1) as i64)
}

/// Minimal-length varint of `u`; returns number of bytes written (1..=10)
pub(crate) fn put_uvarint(mut u: u64, out: &mut [u8], at: usize) -> usize {
	let mut i = 0;
	loop {
		let b = (u & 0x7f) as u8;
		u >>= 7;
		if u == 0 {
			out[at + i] = b;
			return i + 1;
		}
		out[at + i] = b | 0x80;
		i += 1;
	}
}
pub(crate) fn put_long(v: i64, out: &mut [u8], at: usize) -> usize {
	put_uvarint(zigzag64(v), out, at)
}

/// Decode a varint of at most 10 bytes: Some((raw u64 value (bits above 64 dropped), length)) or
/// None if no terminating byte within the slice / within 10 bytes.
pub(crate) fn get_uvarint(data: &[u8]) -> Option<(u64, usize)> {
	let mut u: u64 = 0;
	let mut i = 0;
	while i < data.len() && i < 10 {
		let b = data[i];
		u |= ((b & 0x7f) as u64) << (7 * i as u32);
		if b & 0x80 == 0 {
			return Some((u, i + 1));
		}
		i += 1;
	}
	None
}

// ---------------------------------------------------------------------------------------------
// decimal: "unscaled value's two's-complement big-endian representation"
/// value of `bytes` (<= 16) as two's complement big-endian (sign-extended); empty = 0
pub(crate) fn twos_complement(bytes: &[u8]) -> i128 {
	let mut acc: u128 = if !bytes.is_empty() && bytes[0] & 0x80 != 0 { u128::MAX } else { 0 };
	let mut i = 0;
	while i < bytes.len() {
		acc = (acc << 8) | bytes[i] as u128;
		i += 1;
	}
	acc as i128
}
/// does `v` fit in `n` bytes of two's complement?
pub(crate) fn fits_twos_complement(v: i128, n: usize) -> bool {
	if n >= 16 {
		return true;
	}
	if n == 0 {
		return v == 0;
	}
	let bits = (8 * n) as u32;
	let min = -(1i128 << (bits - 1));
	let max = (1i128 << (bits - 1)) - 1;
	v >= min && v <= max
}

// ---------------------------------------------------------------------------------------------
// UTF-8 well-formedness (Unicode Standard table 3-7), written independently of core::str
pub(crate) fn utf8_valid(b: &[u8]) -> bool {
	let mut i = 0;
	while i < b.len() {
		let c = b[i];
		let need;
		let (lo, hi);
		if c < 0x80 {
			i += 1;
			continue;
		} else if c >= 0xC2 && c <= 0xDF {
			need = 1;
			lo = 0x80;
			hi = 0xBF;
		} else if c == 0xE0 {
			need = 2;
			lo = 0xA0;
			hi = 0xBF;
		} else if (c >= 0xE1 && c <= 0xEC) || c == 0xEE || c == 0xEF {
			need = 2;
			lo = 0x80;
			hi = 0xBF;
		} else if c == 0xED {
			need = 2;
			lo = 0x80;
			hi = 0x9F;
		} else if c == 0xF0 {
			need = 3;
			lo = 0x90;
			hi = 0xBF;
		} else if c >= 0xF1 && c <= 0xF3 {
			need = 3;
			lo = 0x80;
			hi = 0xBF;
		} else if c == 0xF4 {
			need = 3;
			lo = 0x80;
			hi = 0x8F;
		} else {
			return false;
		}
		if i + need >= b.len() {
			// not enough continuation bytes
			return false;
		}
		let s = b[i + 1];
		if s < lo || s > hi {
			return false;
		}
		let mut k = 2;
		while k <= need {
			let t = b[i + k];
			if t < 0x80 || t > 0xBF {
				return false;
			}
			k += 1;
		}
		i += need + 1;
	}
	true
}

// ---------------------------------------------------------------------------------------------
/// Byte-buffer builder for reference encodings
pub(crate) struct Enc<const N: usize> {
	pub(crate) buf: [u8; N],
	pub(crate) len: usize,
}
impl<const N: usize> Enc<N> {
	pub(crate) fn new() -> Self {
		Self { buf: [0; N], len: 0 }
	}
	pub(crate) fn bytes(&self) -> &[u8] {
		&self.buf[..self.len]
	}
	pub(crate) fn byte(&mut self, b: u8) {
		self.buf[self.len] = b;
		self.len += 1;
	}
	pub(crate) fn raw(&mut self, b: &[u8]) {
		let mut i = 0;
		while i < b.len() {
			self.buf[self.len + i] = b[i];
			i += 1;
		}
		self.len += b.len();
	}
	/// int and long: zig-zag varint
	pub(crate) fn long(&mut self, v: i64) {
		let n = put_long(v, &mut self.buf, self.len);
		self.len += n;
	}
	/// non-minimal varint: the minimal encoding of `v` padded with `pad` continuation groups of zero
	/// (still the same number per base-128 little-endian semantics); total length must stay <= 10
	pub(crate) fn long_padded(&mut self, v: i64, pad: usize) {
		let n = put_long(v, &mut self.buf, self.len);
		if pad > 0 {
			self.buf[self.len + n - 1] |= 0x80;
			let mut i = 0;
			while i < pad - 1 {
				self.buf[self.len + n + i] = 0x80;
				i += 1;
			}
			self.buf[self.len + n + pad - 1] = 0x00;
		}
		self.len += n + pad;
	}
	/// bytes / string: length then content
	pub(crate) fn len_prefixed(&mut self, b: &[u8]) {
		self.long(b.len() as i64);
		self.raw(b);
	}
	pub(crate) fn f32_bits(&mut self, bits: u32) {
		self.byte(bits as u8);
		self.byte((bits >> 8) as u8);
		self.byte((bits >> 16) as u8);
		self.byte((bits >> 24) as u8);
	}
	pub(crate) fn f64_bits(&mut self, bits: u64) {
		let mut i = 0;
		while i < 8 {
			self.byte((bits >> (8 * i)) as u8);
			i += 1;
		}
	}
	pub(crate) fn u32_le(&mut self, v: u32) {
		self.f32_bits(v);
	}
}

/// length in bytes of the minimal zig-zag varint of v
pub(crate) fn long_len(v: i64) -> usize {
	let mut tmp = [0u8; 10];
	put_long(v, &mut tmp, 0)
}

/// Array / map block layout: the elements (each of known encoded length) are split into blocks;
/// `split` bit i set = a new block starts before element i (element 0 always starts a block);
/// `neg` bit b set = block b is written with a negative count followed by its byte size.
/// Writes headers + calls `elem(i, enc)` for every element, then the terminating 0 count.
pub(crate) fn encode_blocks<const N: usize, L: Fn(usize) -> usize, E: Fn(usize, &mut Enc<N>)>(
	enc: &mut Enc<N>,
	n: usize,
	split: u8,
	neg: u8,
	elem_len: L,
	elem: E,
) {
	let mut i = 0;
	let mut block = 0u8;
	while i < n {
		// block [i, j)
		let mut j = i + 1;
		while j < n && (split >> j) & 1 == 0 {
			j += 1;
		}
		let count = (j - i) as i64;
		if (neg >> block) & 1 == 1 {
			let mut size = 0usize;
			let mut k = i;
			while k < j {
				size += elem_len(k);
				k += 1;
			}
			enc.long(-count);
			enc.long(size as i64);
		} else {
			enc.long(count);
		}
		let mut k = i;
		while k < j {
			elem(k, enc);
			k += 1;
		}
		i = j;
		block += 1;
	}
	enc.long(0);
}

// ---------------------------------------------------------------------------------------------
/// Reference *decoder* over a byte string (specification §"Binary Encoding"), sequential cursor.
/// `noncanon` is raised when something was accepted that a conforming writer would never emit
/// (zero-padded varint, block byte-size that disagrees with the block, int outside 32 bits): for
/// such inputs the property does not fix Ok-vs-Err, only that an Ok value equals this decode.
pub(crate) struct Dec<'a> {
	pub(crate) data: &'a [u8],
	pub(crate) pos: usize,
	pub(crate) noncanon: bool,
}
impl<'a> Dec<'a> {
	pub(crate) fn new(data: &'a [u8]) -> Self {
		Self { data, pos: 0, noncanon: false }
	}
	pub(crate) fn uvarint(&mut self) -> Option<u64> {
		let mut u: u64 = 0;
		let mut i = 0;
		while i < 10 {
			if self.pos + i >= self.data.len() {
				return None;
			}
			let b = self.data[self.pos + i];
			if i == 9 && b > 1 {
				// more than 64 bits
				return None;
			}
			u |= ((b & 0x7f) as u64) << (7 * i as u32);
			if b & 0x80 == 0 {
				if i > 0 && b == 0 {
					self.noncanon = true;
				}
				self.pos += i + 1;
				return Some(u);
			}
			i += 1;
		}
		None
	}
	pub(crate) fn long(&mut self) -> Option<i64> {
		self.uvarint().map(unzigzag64)
	}
	pub(crate) fn int(&mut self) -> Option<i32> {
		let v = self.long()?;
		if v < i32::MIN as i64 || v > i32::MAX as i64 {
			self.noncanon = true;
		}
		Some(v as i32)
	}
	pub(crate) fn take(&mut self, n: usize) -> Option<&'a [u8]> {
		if n > self.data.len() - self.pos {
			return None;
		}
		let s = &self.data[self.pos..self.pos + n];
		self.pos += n;
		Some(s)
	}
	/// bytes: non-negative long length, then that many bytes
	pub(crate) fn len_prefixed(&mut self) -> Option<&'a [u8]> {
		let l = self.long()?;
		if l < 0 {
			return None;
		}
		self.take(l as usize)
	}
	/// next block header of an array/map: Some(0) = end, Some(n) = n items follow.
	/// A negative count is followed by the block's size in bytes (returned in `size`).
	pub(crate) fn block_count(&mut self, size: &mut Option<u64>) -> Option<u64> {
		let c = self.long()?;
		if c < 0 {
			let s = self.long()?;
			if s < 0 {
				self.noncanon = true;
			}
			*size = Some(s as u64);
			Some((c as u64).wrapping_neg())
		} else {
			*size = None;
			Some(c as u64)
		}
	}
}
