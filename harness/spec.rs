// Reference model written from the Avro specification text. Uses nothing from serde_avro_fast
// nor from integer-encoding.

/// CRC-64-AVRO, bit-serial definition from the specification ("fingerprint64"):
///   fp = EMPTY; for b in buf: fp = (fp >>> 8) ^ table[(fp ^ b) & 0xff]
///   table[i] = 8 rounds of: fp = (fp >>> 1) ^ (EMPTY & -(fp & 1))
pub(crate) const EMPTY64: u64 = 0xc15d213aa4d7a795;

pub(crate) fn rabin_table_entry(i: u64) -> u64 {
	let mut fp = i;
	let mut j = 0;
	while j < 8 {
		fp = (fp >> 1) ^ (EMPTY64 & (0u64.wrapping_sub(fp & 1)));
		j += 1;
	}
	fp
}

pub(crate) fn rabin_step(state: u64, b: u8) -> u64 {
	(state >> 8) ^ rabin_table_entry((state ^ b as u64) & 0xff)
}

// ---------------------------------------------------------------------------------------------
// Avro binary encoding (specification §"Binary Encoding"): zig-zag + base-128 little-endian varint

pub(crate) fn zigzag64(v: i64) -> u64 {
	((v << 1) ^ (v >> 63)) as u64
}
pub(crate) fn unzigzag64(u: u64) -> i64 {
	((u >> 1) as i64) ^ -((u & 1) as i64)
}

/// Minimal-length varint of `u`; returns number of bytes written (1..=10)
pub(crate) fn put_uvarint(mut u: u64, out: &mut [u8], at: usize) -> usize {
	let mut i = 0;
	loop {
		let b = (u & 0x7f) as u8;
		u >>= 7;
		if u == 0 {
			out[at + i] = b;
			return i + 1;
		}
		out[at + i] = b | 0x80;
		i += 1;
	}
}
pub(crate) fn put_long(v: i64, out: &mut [u8], at: usize) -> usize {
	put_uvarint(zigzag64(v), out, at)
}

/// Decode a varint of at most 10 bytes: Some((raw u64 value (bits above 64 dropped), length)) or
/// None if no terminating byte within the slice / within 10 bytes.
pub(crate) fn get_uvarint(data: &[u8]) -> Option<(u64, usize)> {
	let mut u: u64 = 0;
	let mut i = 0;
	while i < data.len() && i < 10 {
		let b = data[i];
		u |= ((b & 0x7f) as u64) << (7 * i as u32);
		if b & 0x80 == 0 {
			return Some((u, i + 1));
		}
		i += 1;
	}
	None
}
