// Reference model written from the Avro specification text. Uses nothing from serde_avro_fast
// nor from integer-encoding.

/// CRC-64-AVRO, bit-serial definition from the specification ("fingerprint64"):
///   fp = EMPTY; for b in buf: fp = (fp >>> 8) ^ table[(fp ^ b) & 0xff]
///   table[i] = 8 rounds of: fp = (fp >>> 1) ^ (EMPTY & -(fp & 1))
pub(crate) const EMPTY64: u64 = 0xc15d213aa4d7a795;

pub(crate) fn rabin_table_entry(i: u64) -> u64 {
	let mut fp = i;
	let mut j = 0;
	while j < 8 {
		fp = (fp >> 1) ^ (EMPTY64 & (0u64.wrapping_sub(fp & 1)));
		j += 1;
	}
	fp
}

pub(crate) fn rabin_step(state: u64, b: u8) -> u64 {
	(state >> 8) ^ rabin_table_entry((state ^ b as u64) & 0xff)
}

// ---------------------------------------------------------------------------------------------
// Avro binary encoding (specification §"Binary Encoding"): zig-zag + base-128 little-endian varint

pub(crate) fn zigzag64(v: i64) -> u64 {
	((v << 1) ^ (v >> 63)) as u64
}
pub(crate) fn unzigzag64(u: u64) -> i64 {
	((u >> 1) as i64) ^ -((u & 1) as i64)
}

/// Minimal-length varint of `u`; returns number of bytes written (1..=10)
pub(crate) fn put_uvarint(mut u: u64, out: &mut [u8], at: usize) -> usize {
	let mut i = 0;
	loop {
		let b = (u & 0x7f) as u8;
		u >>= 7;
		if u == 0 {
			out[at + i] = b;
			return i + 1;
		}
		out[at + i] = b | 0x80;
		i += 1;
	}
}
pub(crate) fn put_long(v: i64, out: &mut [u8], at: usize) -> usize {
	put_uvarint(zigzag64(v), out, at)
}

/// Decode a varint of at most 10 bytes: Some((raw u64 value (bits above 64 dropped), length)) or
/// None if no terminating byte within the slice / within 10 bytes.
pub(crate) fn get_uvarint(data: &[u8]) -> Option<(u64, usize)> {
	let mut u: u64 = 0;
	let mut i = 0;
	while i < data.len() && i < 10 {
		let b = data[i];
		u |= ((b & 0x7f) as u64) << (7 * i as u32);
		if b & 0x80 == 0 {
			return Some((u, i + 1));
		}
		i += 1;
	}
	None
}

// ---------------------------------------------------------------------------------------------
// decimal: "unscaled value's two's-complement big-endian representation"
/// value of `bytes` (<= 16) as two's complement big-endian (sign-extended); empty = 0
pub(crate) fn twos_complement(bytes: &[u8]) -> i128 {
	let mut acc: u128 = if !bytes.is_empty() && bytes[0] & 0x80 != 0 { u128::MAX } else { 0 };
	let mut i = 0;
	while i < bytes.len() {
		acc = (acc << 8) | bytes[i] as u128;
		i += 1;
	}
	acc as i128
}
/// does `v` fit in `n` bytes of two's complement?
pub(crate) fn fits_twos_complement(v: i128, n: usize) -> bool {
	if n >= 16 {
		return true;
	}
	if n == 0 {
		return v == 0;
	}
	let bits = (8 * n) as u32;
	let min = -(1i128 << (bits - 1));
	let max = (1i128 << (bits - 1)) - 1;
	v >= min && v <= max
}

// ---------------------------------------------------------------------------------------------
// UTF-8 well-formedness (Unicode Standard table 3-7), written independently of core::str
pub(crate) fn utf8_valid(b: &[u8]) -> bool {
	let mut i = 0;
	while i < b.len() {
		let c = b[i];
		let need;
		let (lo, hi);
		if c < 0x80 {
			i += 1;
			continue;
		} else if c >= 0xC2 && c <= 0xDF {
			need = 1;
			lo = 0x80;
			hi = 0xBF;
		} else if c == 0xE0 {
			need = 2;
			lo = 0xA0;
			hi = 0xBF;
		} else if (c >= 0xE1 && c <= 0xEC) || c == 0xEE || c == 0xEF {
			need = 2;
			lo = 0x80;
			hi = 0xBF;
		} else if c == 0xED {
			need = 2;
			lo = 0x80;
			hi = 0x9F;
		} else if c == 0xF0 {
			need = 3;
			lo = 0x90;
			hi = 0xBF;
		} else if c >= 0xF1 && c <= 0xF3 {
			need = 3;
			lo = 0x80;
			hi = 0xBF;
		} else if c == 0xF4 {
			need = 3;
			lo = 0x80;
			hi = 0x8F;
		} else {
			return false;
		}
		if i + need >= b.len() {
			// not enough continuation bytes
			return false;
		}
		let s = b[i + 1];
		if s < lo || s > hi {
			return false;
		}
		let mut k = 2;
		while k <= need {
			let t = b[i + k];
			if t < 0x80 || t > 0xBF {
				return false;
			}
			k += 1;
		}
		i += need + 1;
	}
	true
}
