// Mounted in serde_avro_fast::de::read — reader-layer differential harnesses (C11)
use super::*;
use crate::verif::{io::*, spec};

/// position of the first byte without continuation bit (= varint length), or None
fn varint_len(data: &[u8]) -> Option<usize> {
	let mut i = 0;
	while i < data.len() {
		if data[i] & 0x80 == 0 {
			return Some(i + 1);
		}
		i += 1;
	}
	None
}

/// class of inputs of known finding F1: a varint of more than `max` bytes (over-long for the
/// 32-bit types) that the slice decoder accepts
fn overlong_for(data: &[u8], max: usize) -> bool {
	match varint_len(data) {
		Some(n) => n > max,
		None => false,
	}
}

fn rd_varint_diff<I: VarInt + PartialEq + Copy>(restrict: Option<bool>, max32: usize) {
	let data: [u8; 11] = kani::any();
	let len: usize = kani::any();
	kani::assume(len <= 11);
	let chunk: usize = kani::any();
	kani::assume(chunk >= 1 && chunk <= 11);
	let s = &data[..len];
	match restrict {
		Some(true) => kani::assume(overlong_for(s, max32)),
		Some(false) => kani::assume(!overlong_for(s, max32)),
		None => {}
	}
	let mut sr = SliceRead::new(s);
	let a = <SliceRead as Read>::read_varint::<I>(&mut sr);
	let a_used = len - sr.slice.len();
	let mut rr = ReaderRead::new(Chunked::new(s, chunk));
	let b = <ReaderRead<Chunked> as Read>::read_varint::<I>(&mut rr);
	let b_used = rr.reader.consumed();
	kani::cover!(a.is_ok() && chunk == 1 && a_used > 2);
	kani::cover!(a.is_err() && len > 0);
	kani::cover!(a.is_ok() && a_used > chunk);
	match (&a, &b) {
		(Ok(x), Ok(y)) => {
			assert!(*x == *y, "c11_rd_varint: slice and reader decode different values");
			assert!(a_used == b_used, "c11_rd_varint: slice and reader consume different lengths");
		}
		(Err(_), Err(_)) => {}
		(Ok(_), Err(_)) => assert!(false, "c11_rd_varint: slice Ok but chunked reader Err"),
		(Err(_), Ok(_)) => assert!(false, "c11_rd_varint: slice Err but chunked reader Ok"),
	}
	std::mem::forget(a);
	std::mem::forget(b);
}

// @harness props=C11 tier=quick timeout=900
// @bound i64: all inputs of <= 11 bytes x every uniform refill size 1..=11; unwind 13 >= 11 bytes + 2
#[kani::proof]
#[kani::unwind(13)]
#[kani::stub(alloc::fmt::format, crate::verif::stub_format)]
fn c11_rd_varint_i64() {
	rd_varint_diff::<i64>(None, 10);
	kani::cover!(true, "end of harness reached");
}

// @harness props=C11 tier=quick timeout=900
// @bound u64 (used when skipping): all inputs of <= 11 bytes x every uniform refill size 1..=11
#[kani::proof]
#[kani::unwind(13)]
#[kani::stub(alloc::fmt::format, crate::verif::stub_format)]
fn c11_rd_varint_u64() {
	rd_varint_diff::<u64>(None, 10);
	kani::cover!(true, "end of harness reached");
}

// @harness props=C11 tier=quick timeout=900
// @bound i32: all inputs of <= 11 bytes whose first varint is at most 5 bytes long (or unterminated) x every refill size 1..=11
#[kani::proof]
#[kani::unwind(13)]
#[kani::stub(alloc::fmt::format, crate::verif::stub_format)]
fn c11_rd_varint_i32() {
	rd_varint_diff::<i32>(Some(false), 5);
	kani::cover!(true, "end of harness reached");
}

// @harness props=C11 tier=quick timeout=900 finding=F1
// @bound i32: the complementary class: first varint 6..=11 bytes long (over-long encodings the slice path accepts) x every refill size
#[kani::proof]
#[kani::unwind(13)]
#[kani::stub(alloc::fmt::format, crate::verif::stub_format)]
fn c11_rd_varint_i32_overlong() {
	rd_varint_diff::<i32>(Some(true), 5);
	kani::cover!(true, "end of harness reached");
}

// @harness props=C11 tier=quick timeout=900
// @bound u32 (used when skipping an int): varint at most 5 bytes or unterminated x every refill size 1..=11
#[kani::proof]
#[kani::unwind(13)]
#[kani::stub(alloc::fmt::format, crate::verif::stub_format)]
fn c11_rd_varint_u32() {
	rd_varint_diff::<u32>(Some(false), 5);
	kani::cover!(true, "end of harness reached");
}

// @harness props=C11 tier=quick timeout=900 finding=F1
// @bound u32: the complementary over-long class (6..=11 byte varints)
#[kani::proof]
#[kani::unwind(13)]
#[kani::stub(alloc::fmt::format, crate::verif::stub_format)]
fn c11_rd_varint_u32_overlong() {
	rd_varint_diff::<u32>(Some(true), 5);
	kani::cover!(true, "end of harness reached");
}

pub(crate) fn consumed(r: &ReaderRead<Chunked<'_>>) -> usize {
	r.reader.consumed()
}
pub(crate) fn scratch_len(r: &ReaderRead<Chunked<'_>>) -> usize {
	r.scratch.len()
}

/// copy visitor for reader-layer harnesses
fn copy4(b: &[u8]) -> Result<([u8; 4], usize), DeError> {
	let mut o = [0u8; 4];
	let mut i = 0;
	while i < b.len() && i < 4 {
		o[i] = b[i];
		i += 1;
	}
	Ok((o, b.len()))
}

// @harness props=C11 tier=quick timeout=1200
// @bound reader layer, TWO consecutive length-n reads (n1, n2 symbolic 0..=4) from one reader (scratch buffer reused between them) then a varint, over every byte string of length 0..=9 and every refill size 1..=9: same bytes, same Ok/Err and same consumed length as the slice reader
#[kani::proof]
#[kani::unwind(11)]
#[kani::stub(alloc::fmt::format, crate::verif::stub_format)]
fn c11_rd_slice_twice() {
	let data: [u8; 9] = kani::any();
	let len: usize = kani::any();
	kani::assume(len <= 9);
	let chunk: usize = kani::any();
	kani::assume(chunk >= 1 && chunk <= 9);
	let n1: usize = kani::any();
	let n2: usize = kani::any();
	kani::assume(n1 <= 4 && n2 <= 4);
	let s = &data[..len];
	let mut sr = SliceRead::new(s);
	let mut rr = ReaderRead::new(Chunked::new(s, chunk));
	let a1 = sr.read_slice(n1, copy4);
	let b1 = rr.read_slice(n1, copy4);
	kani::cover!(b1.is_ok() && n1 > chunk);
	match (&a1, &b1) {
		(Ok(x), Ok(y)) => assert!(x.1 == y.1 && x.0 == y.0, "c11_rd_slice: first read differs"),
		(Err(_), Err(_)) => {}
		_ => assert!(false, "c11_rd_slice: first read Ok/Err differs between slice and reader"),
	}
	if a1.is_ok() && b1.is_ok() {
		let a2 = sr.read_slice(n2, copy4);
		let b2 = rr.read_slice(n2, copy4);
		kani::cover!(b2.is_ok() && n2 < n1 && n2 > 0 && n1 > chunk);
		match (&a2, &b2) {
			(Ok(x), Ok(y)) => {
				assert!(x.1 == y.1 && x.0 == y.0, "c11_rd_slice: second read differs");
				assert!(len - sr.slice.len() == rr.reader.consumed(), "c11_rd_slice: consumed length differs after two reads");
			}
			(Err(_), Err(_)) => {}
			_ => assert!(false, "c11_rd_slice: second read Ok/Err differs between slice and reader"),
		}
		std::mem::forget(a2);
		std::mem::forget(b2);
	}
	std::mem::forget(a1);
	std::mem::forget(b1);
	kani::cover!(true, "end of harness reached");
}

// @harness props=C11 tier=quick timeout=1200
// @bound reader layer, skip_bytes(n) (n symbolic 0..=7), every byte string 0..=6 x refill size 1..=6: same Ok/Err and consumed length as the slice reader (std::io::copy replaced by a 4-byte-buffer model)
#[kani::proof]
#[kani::unwind(12)]
#[kani::stub(alloc::fmt::format, crate::verif::stub_format)]
#[kani::stub(std::io::copy, crate::verif::stub_io_copy)]
fn c11_rd_skip() {
	let data: [u8; 6] = kani::any();
	let len: usize = kani::any();
	kani::assume(len <= 6);
	let chunk: usize = kani::any();
	kani::assume(chunk >= 1 && chunk <= 6);
	let n: u64 = kani::any();
	kani::assume(n <= 7);
	let s = &data[..len];
	let mut sr = SliceRead::new(s);
	let mut rr = ReaderRead::new(Chunked::new(s, chunk));
	let a = <SliceRead as Read>::skip_bytes(&mut sr, n);
	let b = <ReaderRead<Chunked> as Read>::skip_bytes(&mut rr, n);
	kani::cover!(a.is_ok() && n as usize > chunk);
	kani::cover!(a.is_err());
	match (&a, &b) {
		(Ok(()), Ok(())) => assert!(len - sr.slice.len() == rr.reader.consumed(), "c11_rd_skip: consumed length differs"),
		(Err(_), Err(_)) => {}
		_ => assert!(false, "c11_rd_skip: Ok/Err differs between slice and reader"),
	}
	std::mem::forget(a);
	std::mem::forget(b);
	kani::cover!(true, "end of harness reached");
}
