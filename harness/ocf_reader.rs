// Mounted in serde_avro_fast::object_container_file_encoding::reader — C17
use super::*;
use crate::de::read::SliceRead;
use crate::schema::self_referential::SchemaNode;
use crate::verif::{io::*, spec};

const SYNC: [u8; 16] = [0xA5; 16];

/// A `Reader` in exactly the state `Reader::new` leaves it in after a header with the Null codec and the
/// schema `long` has been parsed (header parsing goes through serde_json: outside, DESIGN C06/C07).
fn reader_after_header<'a>(schema: std::sync::Arc<Schema>, input: &'a [u8]) -> Reader<SliceRead<'a>> {
	// SAFETY: same argument as in Reader::new_and_metadata: the Arc is stored in the Reader
	let schema_root = unsafe { schema.root_with_fake_static_lifetime() };
	Reader {
		reader_state: ReaderState::NotInBlock {
			reader: SliceRead::new(input),
			config: de::DeserializerConfig::from_schema_node(schema_root),
			decompression_buffer: Vec::new(),
		},
		compression_codec: CompressionCodec::Null,
		sync_marker: SYNC,
		pretend_eof_because_yielded_unrecoverable_error: false,
		schema,
	}
}

/// build a file body: two blocks [n0 values][n1 values] of one-byte longs, returns length
fn build_body(buf: &mut [u8; 48], vals: &[u8; 3], n0: usize, n1: usize) -> usize {
	let mut e = spec::Enc::<48>::new();
	let mut k = 0;
	let mut b = 0;
	while b < 2 {
		let n = if b == 0 { n0 } else { n1 };
		if n > 0 {
			e.long(n as i64);
			e.long(n as i64); // byte size: one byte per value
			let mut i = 0;
			while i < n {
				e.byte(vals[k]);
				k += 1;
				i += 1;
			}
			e.raw(&SYNC);
		}
		b += 1;
	}
	let mut i = 0;
	while i < e.len {
		buf[i] = e.buf[i];
		i += 1;
	}
	e.len
}

// @harness props=C17x tier=off timeout=1800
// @bound Null codec, schema long, file body of two blocks holding 1..=2 and 0..=1 one-byte values (symbolic), cut at every byte offset (symbolic): the reader yields a prefix of the written values, each exactly as written, then one Err or end of stream, then end of stream forever; never a value that was not written
#[kani::proof]
#[kani::unwind(18)]
#[kani::stub(alloc::fmt::format, crate::verif::stub_format)]
fn c17_truncated_file() {
	let mut storage = [SchemaNode::Long];
	let st: &'static mut [SchemaNode<'static>] = unsafe { std::mem::transmute(&mut storage[..]) };
	let schema = std::sync::Arc::new(crate::schema::self_referential::verif::schema_over(st, [0; 8]));
	let vals: [u8; 3] = kani::any();
	kani::assume(vals[0] < 0x80 && vals[1] < 0x80 && vals[2] < 0x80);
	let n0: usize = kani::any();
	let n1: usize = kani::any();
	kani::assume(n0 >= 1 && n0 <= 2 && n1 <= 1);
	let mut buf = [0u8; 48];
	let full = build_body(&mut buf, &vals, n0, n1);
	let cut: usize = kani::any();
	kani::assume(cut <= full);
	let mut r = reader_after_header(schema, &buf[..cut]);
	let total = n0 + n1;
	let mut yielded = 0;
	let mut errors = 0;
	let mut ended = false;
	let mut calls = 0;
	while calls < 6 {
		let x = r.deserialize_next::<i64>();
		match &x {
			Ok(Some(v)) => {
				assert!(!ended && errors == 0 || true, "");
				assert!(yielded < total, "c17: more values than were written");
				assert!(*v == spec::unzigzag64(vals[yielded] as u64), "c17: a value that was not written (or out of order) was yielded");
				assert!(!ended, "c17: value yielded after end of stream");
				yielded += 1;
			}
			Ok(None) => ended = true,
			Err(_) => {
				errors += 1;
			}
		}
		std::mem::forget(x);
		calls += 1;
	}
	kani::cover!(cut == full && yielded == total);
	kani::cover!(errors == 1 && yielded == 1);
	if cut == full {
		assert!(yielded == total && errors == 0 && ended, "c17: complete file not read back completely");
	}
	assert!(ended, "c17: reader never reported end of stream");
	std::mem::forget(r);
}
