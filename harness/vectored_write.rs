// Mounted in ...::writer::vectored_write_polyfill — C16: sink write schedule independence
use super::*;

const CAP: usize = 4;

/// Sink whose every write call is decided by the solver. `mode` selects the family of schedules:
///   0: every call accepts k bytes, 1 <= k <= offered (partial writes only)
///   1: as 0, but the call number `special` returns Err(Interrupted) (must be retried, nothing lost)
///   2: as 0, but the call number `special` returns Ok(0)           (must surface as WriteZero)
///   3: as 0, but the call number `special` returns a hard error     (must surface)
struct Sink {
	buf: [u8; CAP],
	len: usize,
	calls: usize,
	max_calls: usize,
	mode: u8,
	special: usize,
	fired: bool,
	/// true: write_vectored only looks at the first non-empty buffer (std's default behaviour)
	first_only: bool,
}
impl Sink {
	fn step(&mut self, offered: usize) -> Result<usize> {
		kani::assume(self.calls < self.max_calls);
		let me = self.calls;
		self.calls += 1;
		if self.mode != 0 && me == self.special {
			self.fired = true;
			return match self.mode {
				1 => Err(Error::from(ErrorKind::Interrupted)),
				2 => Ok(0),
				_ => Err(Error::from(ErrorKind::PermissionDenied)),
			};
		}
		let k: usize = kani::any();
		kani::assume(k >= 1 && k <= offered);
		Ok(k)
	}
	fn push(&mut self, b: u8) {
		kani::assume(self.len < CAP);
		self.buf[self.len] = b;
		self.len += 1;
	}
}
impl Write for Sink {
	fn write(&mut self, data: &[u8]) -> Result<usize> {
		if data.is_empty() {
			return Ok(0);
		}
		let k = self.step(data.len())?;
		let mut i = 0;
		while i < k {
			self.push(data[i]);
			i += 1;
		}
		Ok(k)
	}
	fn write_vectored(&mut self, bufs: &[IoSlice<'_>]) -> Result<usize> {
		let mut total = 0;
		let mut first_nonempty = 0;
		let mut j = 0;
		while j < bufs.len() {
			if total == 0 && !bufs[j].is_empty() {
				first_nonempty = bufs[j].len();
			}
			total += bufs[j].len();
			j += 1;
		}
		let offered = if self.first_only { first_nonempty } else { total };
		if offered == 0 {
			return Ok(0);
		}
		let k = self.step(offered)?;
		let mut left = k;
		let mut j = 0;
		while j < bufs.len() && left > 0 {
			let b: &[u8] = &bufs[j];
			let mut i = 0;
			while i < b.len() && left > 0 {
				self.push(b[i]);
				left -= 1;
				i += 1;
			}
			j += 1;
		}
		Ok(k)
	}
	fn flush(&mut self) -> Result<()> {
		Ok(())
	}
}

fn wav(mode: u8, first_only: bool) {
	let a: [u8; 1] = kani::any();
	let b: [u8; 2] = kani::any();
	let c: [u8; 1] = kani::any();
	let (la, lb, lc): (usize, usize, usize) = (kani::any(), kani::any(), kani::any());
	kani::assume(la <= 1 && lb <= 2 && lc <= 1);
	let n = la + lb + lc;
	let mut concat = [0u8; CAP];
	let mut k = 0;
	let mut i = 0;
	while i < la {
		concat[k] = a[i];
		k += 1;
		i += 1;
	}
	i = 0;
	while i < lb {
		concat[k] = b[i];
		k += 1;
		i += 1;
	}
	i = 0;
	while i < lc {
		concat[k] = c[i];
		k += 1;
		i += 1;
	}
	let special: usize = kani::any();
	kani::assume(special < 3);
	let mut sink = Sink { buf: [0; CAP], len: 0, calls: 0, max_calls: 5, mode, special, fired: false, first_only };
	let r = write_all_vectored(&mut sink, [&a[..la], &b[..lb], &c[..lc]]);
	// whatever happened, what the sink holds is a prefix of the concatenation: nothing reordered / duplicated
	assert!(sink.len <= n, "c16: sink received more bytes than were submitted");
	let mut j = 0;
	while j < sink.len {
		assert!(sink.buf[j] == concat[j], "c16: sink content is not a prefix of the submitted bytes");
		j += 1;
	}
	kani::cover!(mode >= 2 || (r.is_ok() && sink.calls >= 3 && n == CAP));
	kani::cover!(sink.fired || mode == 0);
	match &r {
		Ok(()) => {
			assert!(!(sink.fired && mode >= 2), "c16: Ok although the sink refused data");
			assert!(sink.len == n, "c16: Ok but not every byte reached the sink");
		}
		Err(e) => {
			assert!(sink.fired && mode >= 2, "c16: error although the sink only made progress or asked for a retry");
			if mode == 2 {
				assert!(e.kind() == ErrorKind::WriteZero, "c16: zero-length write not reported as WriteZero");
			} else {
				assert!(e.kind() == ErrorKind::PermissionDenied, "c16: the sink's hard error did not surface");
			}
		}
	}
	std::mem::forget(r);
}

// @harness props=C16 tier=quick timeout=1800
// @bound 3 slices of symbolic length 0..=1 / 0..=2 / 0..=1 and symbolic content; sink accepting any non-empty prefix per call, across buffers and first-buffer-only (symbolic); <= 5 sink calls (longer schedules outside); unwind 7
#[kani::proof]
#[kani::unwind(7)]
#[kani::stub(alloc::fmt::format, crate::verif::stub_format)]
fn c16_wav_partial() {
	wav(0, kani::any());
}

// @harness props=C16 tier=quick timeout=1800
// @bound same slices; one call (symbolic index 0..=2) reports Interrupted and must be retried without losing data
#[kani::proof]
#[kani::unwind(7)]
#[kani::stub(alloc::fmt::format, crate::verif::stub_format)]
fn c16_wav_interrupted() {
	wav(1, false);
}

// @harness props=C16 tier=quick timeout=1800
// @bound same slices; one call (symbolic index 0..=2) accepts zero bytes: the call must fail with WriteZero
#[kani::proof]
#[kani::unwind(7)]
#[kani::stub(alloc::fmt::format, crate::verif::stub_format)]
fn c16_wav_zero() {
	wav(2, false);
}

// @harness props=C16 tier=quick timeout=1800
// @bound same slices; one call (symbolic index 0..=2) fails hard: that error must surface
#[kani::proof]
#[kani::unwind(7)]
#[kani::stub(alloc::fmt::format, crate::verif::stub_format)]
fn c16_wav_hard_error() {
	wav(3, false);
}
