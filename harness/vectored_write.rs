// Mounted in ...::writer::vectored_write_polyfill — C16: sink write schedule independence
use super::*;

const CAP: usize = 6;
const MAX_CALLS: usize = 5;

/// Sink whose every write call is decided by the solver:
///   action 0: accept k bytes (1 <= k <= offered), 1: Err(Interrupted), 2: Ok(0), 3: hard error
struct Sink {
	buf: [u8; CAP],
	len: usize,
	calls: usize,
	saw_zero: bool,
	saw_hard: bool,
	/// true: write_vectored only ever looks at the first non-empty buffer (std's default behaviour)
	first_only: bool,
}
impl Sink {
	fn step(&mut self, offered: usize) -> Result<usize> {
		kani::assume(self.calls < MAX_CALLS);
		self.calls += 1;
		let action: u8 = kani::any();
		kani::assume(action < 4);
		match action {
			0 => {
				let k: usize = kani::any();
				kani::assume(k >= 1 && k <= offered);
				Ok(k)
			}
			1 => Err(Error::from(ErrorKind::Interrupted)),
			2 => {
				self.saw_zero = true;
				Ok(0)
			}
			_ => {
				self.saw_hard = true;
				Err(Error::from(ErrorKind::PermissionDenied))
			}
		}
	}
	fn push(&mut self, b: u8) {
		kani::assume(self.len < CAP);
		self.buf[self.len] = b;
		self.len += 1;
	}
}
impl Write for Sink {
	fn write(&mut self, data: &[u8]) -> Result<usize> {
		if data.is_empty() {
			return Ok(0);
		}
		let k = self.step(data.len())?;
		let mut i = 0;
		while i < k {
			self.push(data[i]);
			i += 1;
		}
		Ok(k)
	}
	fn write_vectored(&mut self, bufs: &[IoSlice<'_>]) -> Result<usize> {
		let mut total = 0;
		let mut first_nonempty = 0;
		let mut j = 0;
		while j < bufs.len() {
			if total == 0 && !bufs[j].is_empty() {
				first_nonempty = bufs[j].len();
			}
			total += bufs[j].len();
			j += 1;
		}
		let offered = if self.first_only { first_nonempty } else { total };
		if offered == 0 {
			return Ok(0);
		}
		let k = self.step(offered)?;
		let mut left = k;
		let mut j = 0;
		while j < bufs.len() && left > 0 {
			let b: &[u8] = &bufs[j];
			let mut i = 0;
			while i < b.len() && left > 0 {
				self.push(b[i]);
				left -= 1;
				i += 1;
			}
			j += 1;
		}
		Ok(k)
	}
	fn flush(&mut self) -> Result<()> {
		Ok(())
	}
}

fn wav(first_only: bool) {
	let a: [u8; 2] = kani::any();
	let b: [u8; 2] = kani::any();
	let c: [u8; 2] = kani::any();
	let (la, lb, lc): (usize, usize, usize) = (kani::any(), kani::any(), kani::any());
	kani::assume(la <= 2 && lb <= 2 && lc <= 2);
	let mut concat = [0u8; CAP];
	let mut n = 0;
	let mut i = 0;
	while i < la {
		concat[n] = a[i];
		n += 1;
		i += 1;
	}
	i = 0;
	while i < lb {
		concat[n] = b[i];
		n += 1;
		i += 1;
	}
	i = 0;
	while i < lc {
		concat[n] = c[i];
		n += 1;
		i += 1;
	}
	let mut sink = Sink { buf: [0; CAP], len: 0, calls: 0, saw_zero: false, saw_hard: false, first_only };
	let r = write_all_vectored(&mut sink, [&a[..la], &b[..lb], &c[..lc]]);
	// whatever happened, what the sink holds is a prefix of the concatenation: nothing reordered/duplicated
	assert!(sink.len <= n, "c16: sink received more bytes than were submitted");
	let mut k = 0;
	while k < sink.len {
		assert!(sink.buf[k] == concat[k], "c16: sink content is not a prefix of the submitted bytes");
		k += 1;
	}
	kani::cover!(r.is_ok() && sink.calls >= 4 && n == CAP);
	kani::cover!(r.is_ok() && la == 0 && lb == 2 && lc == 0);
	kani::cover!(r.is_err() && sink.saw_zero);
	kani::cover!(r.is_err() && sink.saw_hard);
	match &r {
		Ok(()) => {
			assert!(!sink.saw_zero && !sink.saw_hard, "c16: Ok although the sink refused data");
			assert!(sink.len == n, "c16: Ok but not every byte reached the sink");
		}
		Err(e) => {
			assert!(sink.saw_zero || sink.saw_hard, "c16: error although the sink only made progress or asked for retry");
			assert!(sink.len < n || n == 0, "c16: error after everything was written");
			if sink.saw_zero {
				assert!(e.kind() == ErrorKind::WriteZero, "c16: zero-length write not reported as WriteZero");
			} else {
				assert!(e.kind() == ErrorKind::PermissionDenied, "c16: sink's hard error did not surface");
			}
		}
	}
	std::mem::forget(r);
}

// @harness props=C16x tier=quick timeout=1200
// @bound 3 slices of symbolic length 0..=2 each and symbolic content; sink accepting bytes across buffers; <= 5 sink calls, each accept-k / Interrupted / Ok(0) / hard error (runs needing more calls are outside); unwind 8
#[kani::proof]
#[kani::unwind(8)]
#[kani::stub(alloc::fmt::format, crate::verif::stub_format)]
fn c16_wav_across() {
	wav(false);
	kani::cover!(true, "end of harness reached");
}

// @harness props=C16x tier=quick timeout=1200
// @bound same, sink that only ever takes from the first non-empty buffer (std's default write_vectored)
#[kani::proof]
#[kani::unwind(8)]
#[kani::stub(alloc::fmt::format, crate::verif::stub_format)]
fn c16_wav_first_only() {
	wav(true);
	kani::cover!(true, "end of harness reached");
}
