// Mounted in serde_avro_fast::schema::union_variants_per_type_lookup
use super::*;

/// The lookup table of the union ["null","long"] (null first), written out by hand so that record
/// harnesses do not have to run `PerTypeLookup::new` (20-slot table, string inserts: ~150 s). The harness
/// `c02_lookup_table_null_long` decides that the real `new` produces exactly these entries
/// (assume-guarantee, both halves run in the same check).
pub(crate) fn lookup_null_long(null: NodeRef<'static>, long: NodeRef<'static>) -> PerTypeLookup<'static> {
	let mut direct: [Option<(i64, NodeRef<'static>)>; N_VARIANTS] = Default::default();
	direct[UnionVariantLookupKey::Null as usize] = Some((0, null));
	direct[UnionVariantLookupKey::UnitStruct as usize] = Some((0, null));
	direct[UnionVariantLookupKey::UnitVariant as usize] = Some((0, null));
	direct[UnionVariantLookupKey::Integer as usize] = Some((1, long));
	direct[UnionVariantLookupKey::Integer4 as usize] = Some((1, long));
	direct[UnionVariantLookupKey::Integer8 as usize] = Some((1, long));
	PerTypeLookup { per_name: Default::default(), per_direct_union_variant: direct }
}

pub(crate) fn same_direct(a: &PerTypeLookup<'static>, b: &PerTypeLookup<'static>) -> bool {
	let mut i = 0;
	while i < N_VARIANTS {
		match (a.per_direct_union_variant[i], b.per_direct_union_variant[i]) {
			(None, None) => {}
			(Some((x, p)), Some((y, q))) => {
				if x != y || !std::ptr::eq(p.as_ref(), q.as_ref()) {
					return false;
				}
			}
			_ => return false,
		}
		i += 1;
	}
	true
}

// @harness props=C02,C13,C14 tier=quick timeout=1800
// @bound the type-directed lookup table the real PerTypeLookup::new builds for ["null","long"] equals the hand-written table used by the record harnesses (all 20 slots)
#[kani::proof]
#[kani::unwind(22)]
#[kani::stub(alloc::fmt::format, crate::verif::stub_format)]
fn c02_lookup_table_null_long() {
	let null = crate::schema::verif::nref(&crate::schema::verif::NULL);
	let long = crate::schema::verif::nref(&crate::schema::verif::LONG);
	let vars = [null, long];
	let real = PerTypeLookup::new(&vars);
	let hand = lookup_null_long(null, long);
	assert!(same_direct(&real, &hand), "c02_lookup_table: PerTypeLookup::new([null,long]) differs from the expected table");
	std::mem::forget(real);
	std::mem::forget(hand);
	kani::cover!(true, "end of harness reached");
}

fn unnamed_is(l: &PerTypeLookup<'static>, k: UnionVariantLookupKey, want: Option<(i64, NodeRef<'static>)>) -> bool {
	match (l.per_direct_union_variant[k as usize], want) {
		(None, None) => true,
		(Some((x, p)), Some((y, q))) => x == y && std::ptr::eq(p.as_ref(), q.as_ref()),
		_ => false,
	}
}

// @harness props=C02 tier=quick timeout=1800
// @bound type-directed union choice with several equally suitable branches must be None (=> serializer Err): unions [long, timestamp-millis], [long, timestamp-millis, timestamp-micros] and 4 such branches for 8-byte integers; lower-priority branch wins otherwise: [int, long] for 4-byte / 8-byte integers
#[kani::proof]
#[kani::unwind(22)]
#[kani::stub(alloc::fmt::format, crate::verif::stub_format)]
fn c02_lookup_conflicts() {
	use crate::schema::verif as n;
	let long = n::nref(&n::LONG);
	let tsm = n::nref(&n::TS_MILLIS);
	let tsu = n::nref(&n::TS_MICROS);
	let tmu = n::nref(&n::TIME_MICROS);
	let int = n::nref(&n::INT);
	let two = PerTypeLookup::new(&[long, tsm]);
	assert!(unnamed_is(&two, UnionVariantLookupKey::Integer8, None), "c02_lookup: two equally suitable branches must not be chosen between");
	std::mem::forget(two);
	let three = PerTypeLookup::new(&[long, tsm, tsu]);
	assert!(unnamed_is(&three, UnionVariantLookupKey::Integer8, None), "c02_lookup: three equally suitable branches must not be chosen between");
	assert!(unnamed_is(&three, UnionVariantLookupKey::Integer4, None), "c02_lookup: three equally suitable branches must not be chosen between (4-byte)");
	std::mem::forget(three);
	let four = PerTypeLookup::new(&[long, tsm, tsu, tmu]);
	assert!(unnamed_is(&four, UnionVariantLookupKey::Integer8, None), "c02_lookup: four equally suitable branches must not be chosen between");
	std::mem::forget(four);
	let il = PerTypeLookup::new(&[int, long]);
	assert!(unnamed_is(&il, UnionVariantLookupKey::Integer4, Some((0, int))), "c02_lookup: i32 must go to int in [int, long]");
	assert!(unnamed_is(&il, UnionVariantLookupKey::Integer8, Some((1, long))), "c02_lookup: i64 must go to long in [int, long]");
	assert!(unnamed_is(&il, UnionVariantLookupKey::Integer, None), "c02_lookup: other integer widths are ambiguous in [int, long]");
	std::mem::forget(il);
	kani::cover!(true, "end of harness reached");
}
