// C08(a): mounted inside serde_avro_fast::schema::safe::rabin
use super::*;
use crate::verif::spec;

// @harness props=C08 tier=quick timeout=300
// @bound ALL 2^64 states x 2^8 bytes (finite domain, complete), unwind 10 >= 8 table rounds + 1 byte
/// One checksum step, for ALL 2^64 states x 2^8 bytes: the table-driven step of the real code
/// equals the bit-serial definition from the specification.
#[kani::proof]
#[kani::unwind(10)]
fn c08_rabin_step() {
	let state: u64 = kani::any();
	let b: u8 = kani::any();
	let mut r = Rabin { result: state };
	r.write(&[b]);
	kani::cover!(r.result == 0);
	assert!(r.result == spec::rabin_step(state, b), "c08_rabin_step: table step != bit-serial definition");
	kani::cover!(true, "end of harness reached");
}
