// harness code mounted in serde_avro_fast (see DESIGN.md)
