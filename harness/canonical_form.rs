// Mounted in serde_avro_fast::schema::safe::canonical_form — C08(b) canonical form text, C19 totality
use super::*;
use crate::schema::safe::{Array, Enum, Map, Record, RecordField, SchemaNode, Union};
use crate::schema::{Fixed, Name};

/// fmt::Write into a fixed array
pub(crate) struct FixedStr<const N: usize> {
	pub(crate) buf: [u8; N],
	pub(crate) len: usize,
}
impl<const N: usize> FixedStr<N> {
	pub(crate) fn new() -> Self {
		Self { buf: [0; N], len: 0 }
	}
	fn push(&mut self, s: &[u8]) {
		// an assertion, not an assumption: text longer than the bound must fail the harness, not vanish
		assert!(self.len + s.len() <= N, "c08_pcf: canonical form longer than the specification's (buffer bound)");
		let mut i = 0;
		while i < s.len() {
			self.buf[self.len + i] = s[i];
			i += 1;
		}
		self.len += s.len();
	}
}
impl<const N: usize> Write for FixedStr<N> {
	fn write_str(&mut self, s: &str) -> std::fmt::Result {
		self.push(s.as_bytes());
		Ok(())
	}
}

/// Reference Parsing Canonical Form writer, from the specification text:
/// [PRIMITIVES] as "name"; [FULLNAMES]; [STRIP] keep only type,name,fields,symbols,items,values,size;
/// [ORDER] name,type,fields,symbols,items,values,size; no whitespace; a named type is written in full at its
/// first occurrence (depth-first, document order) and as its quoted fullname afterwards.
fn ref_pcf<const N: usize>(s: &SchemaMut, key: usize, seen: &mut [bool; 12], out: &mut FixedStr<N>) {
	let node = &s.nodes()[key];
	match &node.type_ {
		RegularType::Null => out.push(b"\"null\""),
		RegularType::Boolean => out.push(b"\"boolean\""),
		RegularType::Int => out.push(b"\"int\""),
		RegularType::Long => out.push(b"\"long\""),
		RegularType::Float => out.push(b"\"float\""),
		RegularType::Double => out.push(b"\"double\""),
		RegularType::Bytes => out.push(b"\"bytes\""),
		RegularType::String => out.push(b"\"string\""),
		RegularType::Array(a) => {
			out.push(b"{\"type\":\"array\",\"items\":");
			ref_pcf(s, a.items.idx(), seen, out);
			out.push(b"}");
		}
		RegularType::Map(m) => {
			out.push(b"{\"type\":\"map\",\"values\":");
			ref_pcf(s, m.values.idx(), seen, out);
			out.push(b"}");
		}
		RegularType::Union(u) => {
			out.push(b"[");
			let mut i = 0;
			while i < u.variants.len() {
				if i > 0 {
					out.push(b",");
				}
				ref_pcf(s, u.variants[i].idx(), seen, out);
				i += 1;
			}
			out.push(b"]");
		}
		RegularType::Record(r) => {
			if seen[key] {
				out.push(b"\"");
				out.push(r.name.fully_qualified_name().as_bytes());
				out.push(b"\"");
				return;
			}
			seen[key] = true;
			out.push(b"{\"name\":\"");
			out.push(r.name.fully_qualified_name().as_bytes());
			out.push(b"\",\"type\":\"record\",\"fields\":[");
			let mut i = 0;
			while i < r.fields.len() {
				if i > 0 {
					out.push(b",");
				}
				out.push(b"{\"name\":\"");
				out.push(r.fields[i].name.as_bytes());
				out.push(b"\",\"type\":");
				ref_pcf(s, r.fields[i].type_.idx(), seen, out);
				out.push(b"}");
				i += 1;
			}
			out.push(b"]}");
		}
		RegularType::Enum(e) => {
			if seen[key] {
				out.push(b"\"");
				out.push(e.name.fully_qualified_name().as_bytes());
				out.push(b"\"");
				return;
			}
			seen[key] = true;
			out.push(b"{\"name\":\"");
			out.push(e.name.fully_qualified_name().as_bytes());
			out.push(b"\",\"type\":\"enum\",\"symbols\":[");
			let mut i = 0;
			while i < e.symbols.len() {
				if i > 0 {
					out.push(b",");
				}
				out.push(b"\"");
				out.push(e.symbols[i].as_bytes());
				out.push(b"\"");
				i += 1;
			}
			out.push(b"]}");
		}
		RegularType::Fixed(f) => {
			if seen[key] {
				out.push(b"\"");
				out.push(f.name.fully_qualified_name().as_bytes());
				out.push(b"\"");
				return;
			}
			seen[key] = true;
			out.push(b"{\"name\":\"");
			out.push(f.name.fully_qualified_name().as_bytes());
			out.push(b"\",\"type\":\"fixed\",\"size\":");
			// sizes used by the harnesses are single digits
			out.push(&[b'0' + (f.size % 10) as u8]);
			out.push(b"}");
		}
	}
}

fn key(i: usize) -> SchemaKey {
	SchemaKey::from_idx(i)
}
use crate::schema::verif::{name, sstring};
use std::mem::ManuallyDrop as MD;

/// Vec over a stack array (never dropped/grown): heap-allocated graphs give no verdict (every `match` arm is
/// unfolded at every recursion level), stack-built ones are folded.
fn raw_vec<T, const K: usize>(a: &mut MD<[T; K]>) -> Vec<T> {
	unsafe { Vec::from_raw_parts(a.as_mut_ptr(), K, K) }
}
fn node(t: RegularType) -> SchemaNode {
	SchemaNode { type_: t, logical_type: None }
}
fn schema_of<const K: usize>(storage: &mut MD<[SchemaNode; K]>) -> MD<SchemaMut> {
	MD::new(SchemaMut { nodes: raw_vec(storage), schema_json: None })
}

fn compare_pcf<const N: usize>(schema: &SchemaMut) {
	let mut st = MD::new(WriteCanonicalFormState {
		w: ErrorConversionWriter(FixedStr::<N>::new()),
		named_type_written: vec![false; schema.nodes().len()],
		unnamed_type_being_written: vec![false; schema.nodes().len()],
	});
	let r = st.write_canonical_form(schema, SchemaKey::from_idx(0));
	assert!(r.is_ok(), "c08_pcf: canonical form of a valid graph failed");
	let mut want = FixedStr::<N>::new();
	let mut seen = [false; 12];
	ref_pcf(schema, 0, &mut seen, &mut want);
	let got = &st.w.0;
	assert!(got.len == want.len, "c08_pcf: canonical form length differs from the specification's");
	let mut i = 0;
	while i < want.len {
		assert!(got.buf[i] == want.buf[i], "c08_pcf: canonical form text differs from the specification's");
		i += 1;
	}
	std::mem::forget(r);
}

// @harness props=C08 tier=quick timeout=1800
// @bound Parsing Canonical Form text vs the reference writer on graph G1: record ns.r {a: long(timestamp-millis: logical type must be dropped), b: [null, ns.r] (self reference by name), c: enum e{x,y}, d: fixed f(4), e: array<map<e>> (second occurrence of e by name)}; expected text 302 bytes, buffer 362
#[kani::proof]
#[kani::unwind(305)]
#[kani::stub(alloc::fmt::format, crate::verif::stub_format)]
fn c08_pcf_graph1() {
	let mut fields = MD::new([
		RecordField { name: sstring("a"), type_: key(1) },
		RecordField { name: sstring("b"), type_: key(2) },
		RecordField { name: sstring("c"), type_: key(4) },
		RecordField { name: sstring("d"), type_: key(5) },
		RecordField { name: sstring("e"), type_: key(6) },
	]);
	let mut uvars = MD::new([key(3), key(0)]);
	let mut syms = MD::new([sstring("x"), sstring("y")]);
	let mut storage = MD::new([
		/*0*/ node(RegularType::Record(Record { fields: raw_vec(&mut fields), name: name("ns.r", Some(2)) })),
		/*1*/ SchemaNode { type_: RegularType::Long, logical_type: Some(crate::schema::safe::LogicalType::TimestampMillis) },
		/*2*/ node(RegularType::Union(Union { variants: raw_vec(&mut uvars) })),
		/*3*/ node(RegularType::Null),
		/*4*/ node(RegularType::Enum(Enum { symbols: raw_vec(&mut syms), name: name("e", None) })),
		/*5*/ node(RegularType::Fixed(Fixed { size: 4, name: name("f", None) })),
		/*6*/ node(RegularType::Array(Array { items: key(7) })),
		/*7*/ node(RegularType::Map(Map { values: key(4) })),
	]);
	let schema = schema_of(&mut storage);
	compare_pcf::<362>(&schema);
	kani::cover!(true, "end of harness reached");
}

// @harness props=C08 tier=quick timeout=1800
// @bound PCF text on graph G2: union root [string, bytes, double, float, int, boolean, record r2{f: fixed a.g(9), g: a.g again (by name), h: r2 itself}], expected text 202 bytes, buffer 262
#[kani::proof]
#[kani::unwind(205)]
#[kani::stub(alloc::fmt::format, crate::verif::stub_format)]
fn c08_pcf_graph2() {
	let mut uvars = MD::new([key(1), key(2), key(3), key(4), key(5), key(6), key(7)]);
	let mut fields = MD::new([
		RecordField { name: sstring("f"), type_: key(8) },
		RecordField { name: sstring("g"), type_: key(8) },
		RecordField { name: sstring("h"), type_: key(7) },
	]);
	let mut storage = MD::new([
		/*0*/ node(RegularType::Union(Union { variants: raw_vec(&mut uvars) })),
		/*1*/ node(RegularType::String),
		/*2*/ node(RegularType::Bytes),
		/*3*/ node(RegularType::Double),
		/*4*/ node(RegularType::Float),
		/*5*/ node(RegularType::Int),
		/*6*/ node(RegularType::Boolean),
		/*7*/ node(RegularType::Record(Record { fields: raw_vec(&mut fields), name: name("r2", None) })),
		/*8*/ node(RegularType::Fixed(Fixed { size: 9, name: name("a.g", Some(1)) })),
	]);
	let schema = schema_of(&mut storage);
	compare_pcf::<262>(&schema);
	kani::cover!(true, "end of harness reached");
}

// =============================================================================================
// C19: fingerprinting any builder graph returns Ok/Err (no unbounded recursion, no panic)

fn total_case<const K: usize>(storage: &mut MD<[SchemaNode; K]>) -> bool {
	let schema = schema_of(storage);
	let r = schema.canonical_form_rabin_fingerprint();
	let ok = r.is_ok();
	std::mem::forget(r);
	ok
}

// @harness props=C19 tier=quick timeout=1200
// @bound fingerprinting of builder graphs that are NOT cycles through unnamed nodes: empty node list, dangling keys (array/map/union/record field pointing past the end), record containing itself directly and through an array, shared named node; must return Ok/Err within recursion depth 33 (unwinding assertion; unwind 34 also covers the 24-byte literals fed to the hasher)
#[kani::proof]
#[kani::unwind(34)]
#[kani::stub(alloc::fmt::format, crate::verif::stub_format)]
fn c19_fingerprint_total() {
	// empty graph
	let mut g0: MD<[SchemaNode; 0]> = MD::new([]);
	total_case(&mut g0);
	// dangling keys
	let mut g1 = MD::new([node(RegularType::Array(Array { items: key(1) }))]);
	total_case(&mut g1);
	let mut g2 = MD::new([node(RegularType::Map(Map { values: key(7) }))]);
	total_case(&mut g2);
	let mut uv = MD::new([key(1), key(2)]);
	let mut g3 = MD::new([node(RegularType::Union(Union { variants: raw_vec(&mut uv) })), node(RegularType::Null)]);
	total_case(&mut g3);
	// record containing itself directly and through an array (named: must terminate by name reference)
	let mut f4 = MD::new([RecordField { name: sstring("a"), type_: key(0) }, RecordField { name: sstring("b"), type_: key(1) }]);
	let mut g4 = MD::new([
		node(RegularType::Record(Record { fields: raw_vec(&mut f4), name: name("r", None) })),
		node(RegularType::Array(Array { items: key(0) })),
	]);
	assert!(total_case(&mut g4), "c19: record containing itself by name is a valid graph");
	// an unnamed node shared by two parents (DAG, no cycle) is fine
	let mut f5 = MD::new([RecordField { name: sstring("a"), type_: key(1) }, RecordField { name: sstring("b"), type_: key(1) }]);
	let mut g5 = MD::new([
		node(RegularType::Record(Record { fields: raw_vec(&mut f5), name: name("r", None) })),
		node(RegularType::Array(Array { items: key(2) })),
		node(RegularType::Long),
	]);
	assert!(total_case(&mut g5), "c19: DAG sharing an unnamed node rejected");
	kani::cover!(true, "end of harness reached");
}

// @harness props=C19 tier=quick timeout=1200 finding=F6
// @bound the class isolated as finding F6: a cycle made only of unnamed nodes (array whose items is itself; union containing itself; array<->map 2-cycle), concrete graphs; must return (an error) instead of recursing forever (recursion deeper than 33 fails the unwinding assertion)
#[kani::proof]
#[kani::unwind(34)]
#[kani::stub(alloc::fmt::format, crate::verif::stub_format)]
fn c19_fingerprint_unnamed_cycle() {
	let mut g0 = MD::new([node(RegularType::Array(Array { items: key(0) }))]);
	assert!(!total_case(&mut g0), "c19: a cycle through unnamed nodes has no canonical form: must be an error");
	let mut uv = MD::new([key(1), key(0)]);
	let mut g1 = MD::new([node(RegularType::Union(Union { variants: raw_vec(&mut uv) })), node(RegularType::Null)]);
	assert!(!total_case(&mut g1), "c19: a cycle through unnamed nodes has no canonical form: must be an error");
	let mut g2 = MD::new([node(RegularType::Array(Array { items: key(1) })), node(RegularType::Map(Map { values: key(0) }))]);
	assert!(!total_case(&mut g2), "c19: a cycle through unnamed nodes has no canonical form: must be an error");
	kani::cover!(true, "end of harness reached");
}
