// Mounted in serde_avro_fast::schema::self_referential — Schema construction helpers + C10 harnesses
use super::*;
use crate::schema::verif as nodes;

/// A `Schema` over a caller-provided node array (root = element 0) with a caller-chosen fingerprint.
/// The Vec points into `storage` (never dropped: callers `mem::forget` the schema).
pub(crate) fn schema_over(storage: &'static mut [SchemaNode<'static>], fingerprint: [u8; 8]) -> Schema {
	let n = storage.len();
	Schema {
		// SAFETY (verification only): storage outlives the schema, which is forgotten, never dropped or grown
		nodes: unsafe { Vec::from_raw_parts(storage.as_mut_ptr(), n, n) },
		fingerprint,
		schema_json: String::new(),
	}
}
