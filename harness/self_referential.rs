// Mounted in serde_avro_fast::schema::self_referential — Schema construction helpers + C10 harnesses
use super::*;
use crate::schema::verif as nodes;

/// A `Schema` over a caller-provided node array (root = element 0) with a caller-chosen fingerprint.
/// The Vec points into `storage` (never dropped: callers `mem::forget` the schema).
pub(crate) fn schema_over(storage: &'static mut [SchemaNode<'static>], fingerprint: [u8; 8]) -> Schema {
	let n = storage.len();
	Schema {
		// SAFETY (verification only): storage outlives the schema, which is forgotten, never dropped or grown
		nodes: unsafe { Vec::from_raw_parts(storage.as_mut_ptr(), n, n) },
		fingerprint,
		schema_json: String::new(),
	}
}

use crate::schema::safe::{Array, Record, RecordField, RegularType, SchemaKey, SchemaMut};

pub(crate) fn stub_fingerprint(_s: &SchemaMut) -> Result<[u8; 8], SchemaError> {
	Ok([0; 8])
}
pub(crate) fn stub_json(_s: &SchemaMut) -> Result<String, SchemaError> {
	Ok(String::new())
}

// (tier=off: no verdict in 900 s, kept for the record, see DESIGN.md §4 C10)
// @harness props=C10x,C19x tier=off timeout=1800
// @bound freeze() of 1-2 node heap-built graphs with the fingerprint and the JSON rendering stubbed out: dangling key in a record field, in an array; array<long> with the node reference checked against the node vector
#[kani::proof]
#[kani::unwind(6)]
#[kani::stub(alloc::fmt::format, crate::verif::stub_format)]
#[kani::stub(crate::schema::safe::SchemaMut::canonical_form_rabin_fingerprint, stub_fingerprint)]
#[kani::stub(crate::schema::safe::SchemaMut::serialize_to_json, stub_json)]
fn c10_freeze_small_graphs() {
	let g = SchemaMut::from_nodes(vec![Record::new(
		crate::schema::Name::from_fully_qualified_name("r"),
		vec![RecordField::new("a", SchemaKey::from_idx(5))],
	)
	.into()]);
	let r = Schema::try_from(g);
	assert!(r.is_err(), "c10_freeze: dangling key in a record field must be an error");
	std::mem::forget(r);
	let g = SchemaMut::from_nodes(vec![Array::new(SchemaKey::from_idx(1)).into()]);
	let r = Schema::try_from(g);
	assert!(r.is_err(), "c10_freeze: dangling key in an array must be an error");
	std::mem::forget(r);
	let g = SchemaMut::from_nodes(vec![Array::new(SchemaKey::from_idx(1)).into(), RegularType::Long.into()]);
	let r = Schema::try_from(g);
	match &r {
		Ok(s) => match s.root().as_ref() {
			SchemaNode::Array(items) => assert!(std::ptr::eq(items.as_ref(), &s.nodes[1]) && matches!(items.as_ref(), SchemaNode::Long), "c10_freeze: node reference does not point at the right node"),
			_ => assert!(false, "c10_freeze: root kind changed"),
		},
		Err(_) => assert!(false, "c10_freeze: valid graph rejected"),
	}
	std::mem::forget(r);
	kani::cover!(true, "end of harness reached");
}
