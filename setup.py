#!/usr/bin/env python3
"""setup_cmd: pre-build (offline) what the checks need: the Kani build of serde_avro_fast's
dependencies and of the harnesses (codegen only, no solving)."""
import os, subprocess, sys
HERE = os.path.dirname(os.path.abspath(__file__))
env = dict(os.environ, SAF_VERIF=os.path.join(HERE, "harness"), CARGO_NET_OFFLINE="true")
env.pop("RUSTFLAGS", None)
cmd = ["cargo", "kani", "-Z", "stubbing", "--target-dir", "/verif/.target/kani", "--only-codegen",
       "--harness", "schema::safe::rabin::verif::c08_rabin_step", "--exact"]
print("$", " ".join(cmd), flush=True)
rc = subprocess.call(cmd, cwd="/repo/serde_avro_fast", env=env)
sys.exit(rc)
